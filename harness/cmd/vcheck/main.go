// vcheck is the driver / worker / replay binary behind /verif/check.
package main

import (
	"encoding/json"
	"flag"
	"fmt"
	"os"
	"strconv"
	"strings"

	"verif/harness/internal/fw"
	_ "verif/harness/internal/props"
)

func seedFromEnv() int64 {
	if s := os.Getenv("VERIF_SEED"); s != "" {
		if n, err := strconv.ParseInt(s, 10, 64); err == nil {
			return n
		}
	}
	return 1
}

func main() {
	if len(os.Args) < 2 {
		fmt.Fprintln(os.Stderr, "usage: vcheck driver <ID> <quick|thorough> | vcheck replay <file> | vcheck worker ... | vcheck list")
		os.Exit(2)
	}
	root := os.Getenv("VERIF_ROOT")
	if root == "" {
		root = "/verif"
	}
	switch os.Args[1] {
	case "list":
		for _, id := range fw.IDs() {
			fmt.Println(id)
		}
	case "driver":
		if len(os.Args) < 4 {
			fmt.Fprintln(os.Stderr, "usage: vcheck driver <ID> <tier>")
			os.Exit(2)
		}
		p := fw.Lookup(os.Args[2])
		if p == nil {
			fmt.Fprintln(os.Stderr, "unknown property", os.Args[2])
			os.Exit(2)
		}
		tier := os.Args[3]
		if tier != "quick" && tier != "thorough" {
			fmt.Fprintln(os.Stderr, "tier must be quick or thorough")
			os.Exit(2)
		}
		os.Exit(fw.Driver(root, p, tier, seedFromEnv()))
	case "worker":
		fs := flag.NewFlagSet("worker", flag.ExitOnError)
		prop := fs.String("prop", "", "")
		tier := fs.String("tier", "quick", "")
		seed := fs.Int64("seed", 1, "")
		shard := fs.Int("shard", 0, "")
		n := fs.Int("n", 1, "")
		out := fs.String("out", "", "")
		skipS := fs.String("skip", "", "")
		fs.Parse(os.Args[2:])
		p := fw.Lookup(*prop)
		if p == nil {
			fmt.Fprintln(os.Stderr, "unknown property", *prop)
			os.Exit(2)
		}
		skip := map[int]bool{}
		if *skipS != "" {
			for _, s := range strings.Split(*skipS, ",") {
				if k, err := strconv.Atoi(s); err == nil {
					skip[k] = true
				}
			}
		}
		if err := fw.Worker(p, *tier, *seed, *shard, *n, skip, *out); err != nil {
			fmt.Fprintln(os.Stderr, "worker:", err)
			os.Exit(3)
		}
	case "replay":
		if len(os.Args) < 3 {
			fmt.Fprintln(os.Stderr, "usage: vcheck replay <file>")
			os.Exit(2)
		}
		b, err := os.ReadFile(os.Args[2])
		if err != nil {
			fmt.Fprintln(os.Stderr, err)
			os.Exit(2)
		}
		var v fw.Violation
		if err := json.Unmarshal(b, &v); err != nil {
			fmt.Fprintln(os.Stderr, err)
			os.Exit(2)
		}
		p := fw.Lookup(v.Property)
		if p == nil {
			fmt.Fprintln(os.Stderr, "unknown property", v.Property)
			os.Exit(2)
		}
		fmt.Printf("replaying %s tier=%s seed=%d case=%d\nrecorded witness: %s\n", v.Property, v.Tier, v.Seed, v.Idx, v.Witness)
		if v.Idx < 0 {
			fmt.Println("this record is a race report (no single case): re-run the check with the same VERIF_SEED; the racy pair is in the witness")
			os.Exit(0)
		}
		n, _ := fw.Replay(p, v.Tier, v.Seed, v.Idx)
		if n > 0 {
			fmt.Printf("replay: %d violation(s) re-observed\n", n)
			os.Exit(1)
		}
		fmt.Println("replay: no violation observed on this tree")
	default:
		fmt.Fprintln(os.Stderr, "unknown command", os.Args[1])
		os.Exit(2)
	}
}
