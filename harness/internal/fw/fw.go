// Package fw is the small runtime-monitoring framework shared by all property checks:
// seeded case lists sharded over worker processes, counters / distinct-sets for coverage,
// violation records with replay files, known-finding classification and evidence output.
package fw

import (
	"encoding/json"
	"fmt"
	"hash/fnv"
	"math/rand"
	"os"
	"runtime/debug"
	"sort"
	"strings"
	"sync"
	"sync/atomic"
	"time"
)

// Prop describes one property check.
type Prop struct {
	ID    string
	Level string // evidence level: exploration | fault_enumeration
	Race  bool   // run in the -race binary and treat race reports as violations
	Rule  string // how cases are generated, what makes one non-trivial / distinct
	// Cases returns the number of cases of the seed-determined case list for a tier.
	Cases func(tier string) int
	// Run executes case c.Idx. Must be deterministic in (c.Seed, c.Idx) unless the property is about schedules.
	Run func(c *Ctx)
	// Floors are minimum values of counters (or "distinct:<set>") that a run must reach, else it is inconclusive.
	Floors      map[string]int64
	Assumptions []string
	// Exhaustive is set when the case list enumerates a finite space completely (reported in evidence).
	Exhaustive func(tier string) bool
	// MaxProcs caps the number of worker processes (0 = number of CPUs); race/concurrency properties
	// that need the cores inside one process use a small number.
	MaxProcs int
	// EvalCounters names the counters whose sum is reported as coverage.evaluations (default: number of cases).
	EvalCounters []string
	// StallSeconds > 0 enables Ctx.Checkpoint (input written to disk before each call) and the stall monitor.
	StallSeconds int
	// WorkerSetup runs once in each worker before the first case.
	WorkerSetup func(tier string)
}

var registry = map[string]*Prop{}

func Register(p *Prop)       { registry[p.ID] = p }
func Lookup(id string) *Prop { return registry[id] }
func IDs() []string {
	var ids []string
	for id := range registry {
		ids = append(ids, id)
	}
	sort.Strings(ids)
	return ids
}

// Violation is one observed contradiction of the property.
type Violation struct {
	Property  string `json:"property"`
	Tier      string `json:"tier"`
	Seed      int64  `json:"seed"`
	Idx       int    `json:"case_idx"`
	Signature string `json:"signature"` // classifier output; "" = unclassified
	Witness   string `json:"witness"`   // expected vs observed
	Case      any    `json:"case,omitempty"`
	Fatal     bool   `json:"fatal,omitempty"` // worker process died while running the case
	Kind      string `json:"kind,omitempty"`  // leading words of the witness (for histograms / de-duplication of reports)
}

func (v *Violation) Key() string {
	w := v.Witness
	if len(w) > 200 {
		w = w[:200]
	}
	return fmt.Sprintf("%d|%s|%s", v.Idx, v.Signature, w)
}

// ShardResult is what a worker reports.
type ShardResult struct {
	Shard      int                        `json:"shard"`
	Cases      int64                      `json:"cases"`
	Counters   map[string]int64           `json:"counters"`
	Distinct   map[string]map[uint64]bool `json:"-"`
	DistinctL  map[string][]uint64        `json:"distinct"`
	Samples    []any                      `json:"samples"`
	Violations []*Violation               `json:"violations"`
	VioCount   map[string]int64           `json:"vio_count"` // by signature
	Maxes      map[string]int64           `json:"maxes"`
}

// Ctx is handed to Prop.Run for each case.
type Ctx struct {
	Prop    *Prop
	Tier    string
	Seed    int64
	Idx     int
	Rng     *rand.Rand
	Verbose bool // replay mode: print the trace
	res     *ShardResult
	mu      *sync.Mutex
	desc    any
	trace   []string
	nvio    int
	ckpt    *os.File
}

func CaseSeed(seed int64, id string, idx int) int64 {
	h := fnv.New64a()
	fmt.Fprintf(h, "%d/%s/%d", seed, id, idx)
	return int64(h.Sum64() & 0x7fffffffffffffff)
}

func newCtx(p *Prop, tier string, seed int64, idx int, res *ShardResult, mu *sync.Mutex) *Ctx {
	return &Ctx{Prop: p, Tier: tier, Seed: seed, Idx: idx, Rng: rand.New(rand.NewSource(CaseSeed(seed, p.ID, idx))), res: res, mu: mu}
}

func (c *Ctx) Quick() bool { return c.Tier != "thorough" }

// Count adds n to a named coverage counter.
func (c *Ctx) Count(name string, n int64) {
	c.mu.Lock()
	c.res.Counters[name] += n
	c.mu.Unlock()
}

// Max records the maximum of a named gauge.
func (c *Ctx) Max(name string, n int64) {
	c.mu.Lock()
	if n > c.res.Maxes[name] {
		c.res.Maxes[name] = n
	}
	c.mu.Unlock()
}

// Distinct adds a hash to a named distinct-set.
func (c *Ctx) Distinct(set string, h uint64) {
	c.mu.Lock()
	m := c.res.Distinct[set]
	if m == nil {
		m = map[uint64]bool{}
		c.res.Distinct[set] = m
	}
	m[h] = true
	c.mu.Unlock()
}

// NonTrivial records this case (by content hash) as distinct and non-trivial by the property's rule.
func (c *Ctx) NonTrivial(h uint64) { c.Distinct("nontrivial", h) }

// Describe sets the human-readable description of the current case (stored in replay files and samples).
func (c *Ctx) Describe(v any) { c.desc = v }

// Sample keeps a few cases written out for the evidence file.
func (c *Ctx) Sample(v any) {
	c.mu.Lock()
	if len(c.res.Samples) < 2 {
		c.res.Samples = append(c.res.Samples, v)
	}
	c.mu.Unlock()
}

// Tracef records a line of the case trace (kept for the witness; printed in replay mode).
func (c *Ctx) Tracef(format string, a ...any) {
	s := fmt.Sprintf(format, a...)
	if len(c.trace) < 400 {
		c.trace = append(c.trace, s)
	}
	if c.Verbose {
		fmt.Println("  | " + s)
	}
}

func (c *Ctx) Trace() []string { return c.trace }

// Violate records a violation. sig is the classifier signature ("" if none applies).
func (c *Ctx) Violate(sig, format string, a ...any) {
	w := fmt.Sprintf(format, a...)
	if len(w) > 4000 {
		w = w[:4000] + "…"
	}
	c.mu.Lock()
	defer c.mu.Unlock()
	c.res.VioCount[sig]++
	c.nvio++
	kind := w
	if i := strings.IndexAny(kind, "(:=\""); i > 0 {
		kind = kind[:i]
	}
	if len(kind) > 40 {
		kind = kind[:40]
	}
	c.res.Counters["VIO["+sig+"] "+kind]++
	if c.Verbose {
		fmt.Printf("  ! VIOLATED [%s] %s\n", sig, w)
	}
	// keep at most a handful of full records per signature per shard
	n := 0
	for _, v := range c.res.Violations {
		if v.Signature == sig && v.Kind == kind {
			n++
		}
	}
	if n >= 3 {
		return
	}
	desc := c.desc
	if desc == nil {
		desc = c.trace
	}
	c.res.Violations = append(c.res.Violations, &Violation{Property: c.Prop.ID, Tier: c.Tier, Seed: c.Seed, Idx: c.Idx, Signature: sig, Witness: w, Case: desc, Kind: kind})
}

// Checkpoint writes the input that is about to be handed to the code under test to disk (one slot per worker), so
// that the driver can name it if the process dies or stalls inside the call. Progress is counted for the stall monitor.
func (c *Ctx) Checkpoint(label string, data []byte) {
	atomic.AddInt64(&progress, 1)
	if c.ckpt == nil {
		return
	}
	hdr := fmt.Sprintf("%-40s %10d\n", label, len(data))
	buf := make([]byte, 0, len(hdr)+len(data))
	buf = append(buf, hdr...)
	buf = append(buf, data...)
	c.ckpt.WriteAt(buf, 0)
}

var progress int64

// Violated reports whether this case already recorded a violation.
func (c *Ctx) Violated() bool { return c.nvio > 0 }

// Hash64 hashes arbitrary strings/bytes to a 64-bit value for distinct-sets.
func Hash64(parts ...any) uint64 {
	h := fnv.New64a()
	for _, p := range parts {
		switch v := p.(type) {
		case string:
			h.Write([]byte(v))
		case []byte:
			h.Write(v)
		default:
			fmt.Fprint(h, v)
		}
		h.Write([]byte{0xff})
	}
	return h.Sum64()
}

func newShardResult(shard int) *ShardResult {
	return &ShardResult{Shard: shard, Counters: map[string]int64{}, Distinct: map[string]map[uint64]bool{}, VioCount: map[string]int64{}, Maxes: map[string]int64{}}
}

// RunCase runs one case with panic recovery; a panic inside the code under test is a violation of
// every property here ("no operation panics" where stated; elsewhere it means the monitor could not
// observe the rest of the execution, which is reported, never swallowed).
func RunCase(c *Ctx) {
	defer func() {
		if r := recover(); r != nil {
			st := string(debug.Stack())
			// keep the frames of the code under test
			var keep []string
			for _, l := range strings.Split(st, "\n") {
				if strings.Contains(l, "0chain/common") || strings.Contains(l, "verif/harness/internal/props") {
					keep = append(keep, strings.TrimSpace(l))
				}
			}
			if len(keep) > 12 {
				keep = keep[:12]
			}
			c.Violate(PanicSig(c.Prop.ID, fmt.Sprint(r), keep), "panic: %v\n%s", r, strings.Join(keep, "\n"))
		}
	}()
	c.Prop.Run(c)
}

// PanicSig may be overridden by properties that classify panics; default: unclassified.
var PanicSig = func(id, msg string, frames []string) string { return "" }

// Worker runs the shard's slice of the case list and writes the result file.
func Worker(p *Prop, tier string, seed int64, shard, nshards int, skip map[int]bool, outPrefix string) error {
	res := newShardResult(shard)
	var mu sync.Mutex
	cur, err := os.OpenFile(outPrefix+".current", os.O_CREATE|os.O_RDWR|os.O_TRUNC, 0o644)
	if err != nil {
		return err
	}
	defer cur.Close()
	if p.WorkerSetup != nil {
		p.WorkerSetup(tier)
	}
	var ckpt *os.File
	if p.StallSeconds > 0 {
		ckpt, _ = os.OpenFile(outPrefix+".input", os.O_CREATE|os.O_RDWR|os.O_TRUNC, 0o644)
		go func() { // stall monitor: a single call that does not return for StallSeconds ends the worker (exit 97)
			last, since := int64(-1), time.Now()
			for {
				time.Sleep(500 * time.Millisecond)
				cur := atomic.LoadInt64(&progress)
				if cur != last {
					last, since = cur, time.Now()
				} else if time.Since(since) > time.Duration(p.StallSeconds)*time.Second {
					fmt.Fprintf(os.Stderr, "fatal error: STALL: the current call has not returned for %d seconds\n", p.StallSeconds)
					os.Exit(97)
				}
			}
		}()
	}
	total := p.Cases(tier)
	buf := make([]byte, 0, 32)
	for idx := shard; idx < total; idx += nshards {
		if skip[idx] {
			continue
		}
		buf = append(buf[:0], fmt.Sprintf("%-20d\n", idx)...)
		cur.WriteAt(buf, 0)
		c := newCtx(p, tier, seed, idx, res, &mu)
		c.ckpt = ckpt
		RunCase(c)
		atomic.AddInt64(&progress, 1)
		res.Cases++
	}
	cur.WriteAt([]byte(fmt.Sprintf("%-20d\n", -1)), 0)
	return writeResult(res, outPrefix+".result.json")
}

func writeResult(res *ShardResult, path string) error {
	res.DistinctL = map[string][]uint64{}
	for k, m := range res.Distinct {
		l := make([]uint64, 0, len(m))
		for h := range m {
			l = append(l, h)
		}
		res.DistinctL[k] = l
	}
	b, err := json.Marshal(res)
	if err != nil {
		// samples or case descriptions that do not marshal must not lose the result
		res.Samples = nil
		for _, v := range res.Violations {
			v.Case = fmt.Sprint(v.Case)
		}
		b, err = json.Marshal(res)
		if err != nil {
			return err
		}
	}
	tmp := path + ".tmp"
	if err := os.WriteFile(tmp, b, 0o644); err != nil {
		return err
	}
	return os.Rename(tmp, path)
}

// Replay re-runs one case verbosely and returns the number of violations observed.
func Replay(p *Prop, tier string, seed int64, idx int) (int, []*Violation) {
	res := newShardResult(0)
	var mu sync.Mutex
	if p.WorkerSetup != nil {
		p.WorkerSetup(tier)
	}
	c := newCtx(p, tier, seed, idx, res, &mu)
	c.Verbose = true
	RunCase(c)
	return c.nvio, res.Violations
}
