package fw

import (
	"bufio"
	"crypto/sha256"
	"encoding/hex"
	"encoding/json"
	"fmt"
	"os"
	"os/exec"
	"path/filepath"
	"runtime"
	"sort"
	"strconv"
	"strings"
	"sync"
	"syscall"
	"time"
)

// KnownFinding is one entry of /verif/known_findings.json (committed; never written at run time).
type KnownFinding struct {
	Property  string `json:"property"`
	Signature string `json:"signature"`
	Status    string `json:"status"` // open | fixed
	What      string `json:"what"`
	Commit    string `json:"commit,omitempty"`
	Record    string `json:"record,omitempty"`
}

type knownFile struct {
	Findings []KnownFinding `json:"findings"`
}

func loadKnown(root string) []KnownFinding {
	b, err := os.ReadFile(filepath.Join(root, "known_findings.json"))
	if err != nil {
		return nil
	}
	var kf knownFile
	if err := json.Unmarshal(b, &kf); err != nil {
		fmt.Fprintln(os.Stderr, "known_findings.json does not parse:", err)
		os.Exit(2)
	}
	return kf.Findings
}

type Evidence struct {
	PropertyID  string         `json:"property_id"`
	Tier        string         `json:"tier"`
	Seed        int64          `json:"seed"`
	Level       string         `json:"level"`
	Coverage    map[string]any `json:"coverage"`
	Assumptions []string       `json:"assumptions"`
	WallS       float64        `json:"wall_s"`
	Violations  int            `json:"violations"`
	Verdict     string         `json:"verdict"`
}

// Driver runs all shards of a property check in child processes and decides the verdict.
// Exit codes: 0 held, 1 violated, 2 inconclusive.
func Driver(root string, p *Prop, tier string, seed int64) int {
	t0 := time.Now()
	work := filepath.Join(root, "work", p.ID)
	os.RemoveAll(work)
	if err := os.MkdirAll(work, 0o755); err != nil {
		fmt.Fprintln(os.Stderr, err)
		return 2
	}
	nproc := runtime.NumCPU()
	if s := os.Getenv("VERIF_PROCS"); s != "" {
		if n, err := strconv.Atoi(s); err == nil && n > 0 {
			nproc = n
		}
	}
	if p.MaxProcs > 0 && nproc > p.MaxProcs {
		nproc = p.MaxProcs
	}
	total := p.Cases(tier)
	if total < nproc {
		nproc = total
	}
	if nproc < 1 {
		nproc = 1
	}
	watchdog := 40 * time.Minute
	if tier == "thorough" {
		watchdog = 8 * time.Hour
	}
	if s := os.Getenv("VERIF_WATCHDOG_S"); s != "" {
		if n, err := strconv.Atoi(s); err == nil && n > 0 {
			watchdog = time.Duration(n) * time.Second
		}
	}
	self, _ := os.Executable()

	type shardOut struct {
		results []*ShardResult
		fatals  []*Violation
		incon   string
	}
	outs := make([]shardOut, nproc)
	var wg sync.WaitGroup
	deadline := time.Now().Add(watchdog)
	var procMu sync.Mutex
	procs := map[int]*os.Process{}
	for sh := 0; sh < nproc; sh++ {
		wg.Add(1)
		go func(sh int) {
			defer wg.Done()
			skip := []int{}
			for attempt := 0; attempt < 6; attempt++ {
				prefix := filepath.Join(work, fmt.Sprintf("shard-%d", sh))
				os.Remove(prefix + ".result.json")
				args := []string{"worker", "-prop", p.ID, "-tier", tier, "-seed", fmt.Sprint(seed), "-shard", fmt.Sprint(sh), "-n", fmt.Sprint(nproc), "-out", prefix}
				if len(skip) > 0 {
					var ss []string
					for _, s := range skip {
						ss = append(ss, fmt.Sprint(s))
					}
					args = append(args, "-skip", strings.Join(ss, ","))
				}
				cmd := exec.Command(self, args...)
				logf, _ := os.OpenFile(prefix+".log", os.O_CREATE|os.O_WRONLY|os.O_TRUNC, 0o644)
				cmd.Stdout, cmd.Stderr = logf, logf
				cmd.Env = append(os.Environ(), "GORACE=halt_on_error=0 log_path="+filepath.Join(work, "race"), "GOTRACEBACK=all")
				if err := cmd.Start(); err != nil {
					outs[sh].incon = "cannot start worker: " + err.Error()
					logf.Close()
					return
				}
				procMu.Lock()
				procs[cmd.Process.Pid] = cmd.Process
				procMu.Unlock()
				err := cmd.Wait()
				procMu.Lock()
				delete(procs, cmd.Process.Pid)
				procMu.Unlock()
				logf.Close()
				if time.Now().After(deadline) {
					outs[sh].incon = "watchdog fired"
					return
				}
				if b, rerr := os.ReadFile(prefix + ".result.json"); rerr == nil {
					var r ShardResult
					if jerr := json.Unmarshal(b, &r); jerr == nil {
						outs[sh].results = append(outs[sh].results, &r)
						return
					}
				}
				// the worker died: find the culprit case
				cb, _ := os.ReadFile(prefix + ".current")
				idx, cerr := strconv.Atoi(strings.TrimSpace(string(cb)))
				tail := tailOfLog(prefix+".log", 60)
				if cerr != nil || idx < 0 {
					outs[sh].incon = fmt.Sprintf("worker exited (%v) outside a case: %s", err, firstLine(tail))
					return
				}
				inputNote := ""
				if ib, ierr := os.ReadFile(prefix + ".input"); ierr == nil && len(ib) > 52 {
					n, _ := strconv.Atoi(strings.TrimSpace(string(ib[41:51])))
					if n >= 0 && 52+n <= len(ib) {
						d := ib[52 : 52+n]
						if len(d) > 2048 {
							d = d[:2048]
						}
						inputNote = fmt.Sprintf("\ninput on disk before the call [%s, %d bytes]: %x", strings.TrimSpace(string(ib[:40])), n, d)
					}
				}
				outs[sh].fatals = append(outs[sh].fatals, &Violation{Property: p.ID, Tier: tier, Seed: seed, Idx: idx, Fatal: true,
					Signature: FatalSig(p.ID, tail), Witness: fmt.Sprintf("worker process died (%v) while running this case:\n%s%s", err, tail, inputNote)})
				skip = append(skip, idx)
			}
			outs[sh].incon = "worker died repeatedly"
		}(sh)
	}
	done := make(chan struct{})
	go func() { wg.Wait(); close(done) }()
	select {
	case <-done:
	case <-time.After(watchdog):
		procMu.Lock()
		for _, pr := range procs {
			pr.Signal(syscall.SIGQUIT)
		}
		procMu.Unlock()
		time.Sleep(2 * time.Second)
		procMu.Lock()
		for _, pr := range procs {
			pr.Kill()
		}
		procMu.Unlock()
		<-done
	}

	// ---- merge ----
	counters := map[string]int64{}
	maxes := map[string]int64{}
	distinct := map[string]map[uint64]bool{}
	vioCount := map[string]int64{}
	var samples []any
	var vios []*Violation
	var cases int64
	var incon []string
	seen := map[string]bool{}
	for sh := range outs {
		if outs[sh].incon != "" {
			incon = append(incon, fmt.Sprintf("shard %d: %s", sh, outs[sh].incon))
		}
		for _, f := range outs[sh].fatals {
			vios = append(vios, f)
			vioCount[f.Signature]++
		}
		for _, r := range outs[sh].results {
			cases += r.Cases
			for k, v := range r.Counters {
				counters[k] += v
			}
			for k, v := range r.Maxes {
				if v > maxes[k] {
					maxes[k] = v
				}
			}
			for k, l := range r.DistinctL {
				m := distinct[k]
				if m == nil {
					m = map[uint64]bool{}
					distinct[k] = m
				}
				for _, h := range l {
					m[h] = true
				}
			}
			for k, v := range r.VioCount {
				vioCount[k] += v
			}
			if len(samples) < 3 {
				samples = append(samples, r.Samples...)
			}
			for _, v := range r.Violations {
				if !seen[v.Key()] {
					seen[v.Key()] = true
					vios = append(vios, v)
				}
			}
		}
	}
	if len(samples) > 3 {
		samples = samples[:3]
	}

	// ---- race reports ----
	raceBlocks, racePairs := 0, map[string]string{}
	if p.Race {
		raceBlocks, racePairs = parseRaceLogs(work)
		for pair, block := range racePairs {
			sig := "race:" + pair
			vioCount[sig]++
			vios = append(vios, &Violation{Property: p.ID, Tier: tier, Seed: seed, Idx: -1, Signature: sig, Witness: block})
		}
	}

	// ---- known findings ----
	known := loadKnown(root)
	open := map[string]KnownFinding{}
	for _, k := range known {
		if k.Property == p.ID && k.Status == "open" {
			open[k.Signature] = k
		}
	}
	knownSeen := map[string]int64{}
	var unknown []*Violation
	for _, v := range vios {
		if _, ok := open[v.Signature]; ok && v.Signature != "" {
			continue
		}
		unknown = append(unknown, v)
	}
	for sig, n := range vioCount {
		if _, ok := open[sig]; ok && sig != "" {
			knownSeen[sig] = n
		}
	}
	var unknownTotal int64
	for sig, n := range vioCount {
		if _, ok := open[sig]; !(ok && sig != "") {
			unknownTotal += n
		}
	}

	// ---- floors ----
	var floorsMissed []string
	for name, min := range p.Floors {
		var got int64
		if strings.HasPrefix(name, "distinct:") {
			got = int64(len(distinct[strings.TrimPrefix(name, "distinct:")]))
		} else if strings.HasPrefix(name, "max:") {
			got = maxes[strings.TrimPrefix(name, "max:")]
		} else {
			got = counters[name]
		}
		if got < min {
			floorsMissed = append(floorsMissed, fmt.Sprintf("%s=%d<%d", name, got, min))
		}
	}
	sort.Strings(floorsMissed)
	for k, v := range counters {
		if strings.HasPrefix(k, "inconclusive:") && v > 0 {
			incon = append(incon, fmt.Sprintf("%s (%d times)", strings.TrimPrefix(k, "inconclusive:"), v))
		}
	}

	verdict := "held"
	code := 0
	if len(unknown) > 0 || unknownTotal > 0 {
		verdict, code = "violated", 1
	} else if len(incon) > 0 || len(floorsMissed) > 0 {
		verdict, code = "inconclusive", 2
	}

	// ---- evidence ----
	dcount := map[string]int{}
	for k, m := range distinct {
		dcount[k] = len(m)
	}
	evaluations := cases
	if p.EvalCounters != nil { // properties whose cases bundle many executions name the counters that count them
		evaluations = 0
		for _, k := range p.EvalCounters {
			evaluations += counters[k]
		}
	}
	cov := map[string]any{
		"evaluations":         evaluations,
		"cases":               cases,
		"distinct_nontrivial": len(distinct["nontrivial"]),
		"rule":                p.Rule,
		"samples":             samples,
		"counters":            counters,
		"distinct_sets":       dcount,
		"maxima":              maxes,
		"workers":             nproc,
		"case_list_size":      total,
	}
	if p.Exhaustive != nil && p.Exhaustive(tier) {
		cov["exhaustive"] = true
	}
	if p.Race {
		cov["race_report_blocks"] = raceBlocks
		cov["race_distinct_entry_pairs"] = len(racePairs)
	}
	if len(knownSeen) > 0 {
		cov["known_findings_reobserved"] = knownSeen
	}
	if len(incon) > 0 {
		cov["inconclusive_reasons"] = incon
	}
	if len(floorsMissed) > 0 {
		cov["coverage_floors_missed"] = floorsMissed
	}
	if len(samples) == 0 {
		cov["samples"] = []any{"(no sample recorded)"}
	}
	ev := Evidence{PropertyID: p.ID, Tier: tier, Seed: seed, Level: p.Level, Coverage: cov, Assumptions: p.Assumptions,
		WallS: time.Since(t0).Seconds(), Violations: int(unknownTotal), Verdict: verdict}
	os.MkdirAll(filepath.Join(root, "evidence"), 0o755)
	eb, _ := json.MarshalIndent(ev, "", " ")
	os.WriteFile(filepath.Join(root, "evidence", p.ID+".json"), append(eb, '\n'), 0o644)

	// ---- report ----
	fmt.Printf("%s %s seed=%d: %d cases in %d workers, %d distinct non-trivial, %.1fs -> %s\n", p.ID, tier, seed, cases, nproc, len(distinct["nontrivial"]), time.Since(t0).Seconds(), verdict)
	var cn []string
	for k := range counters {
		cn = append(cn, k)
	}
	sort.Strings(cn)
	var sb strings.Builder
	for _, k := range cn {
		fmt.Fprintf(&sb, " %s=%d", k, counters[k])
	}
	fmt.Println("  observed:" + sb.String())
	for sig, k := range open {
		n := knownSeen[sig]
		fmt.Printf("KNOWN-FINDING: property=%s %s [signature %s, re-observed %d times in this run]\n", p.ID, k.What, sig, n)
	}
	for _, s := range incon {
		fmt.Println("INCONCLUSIVE:", s)
	}
	for _, s := range floorsMissed {
		fmt.Println("INCONCLUSIVE: coverage floor missed:", s)
	}
	if len(unknown) > 0 {
		os.MkdirAll(filepath.Join(root, "replays", p.ID), 0o755)
		shown := map[string]int{}
		lines := 0
		for _, v := range unknown {
			if lines >= 12 {
				break
			}
			if shown[v.Signature+"|"+v.Kind] >= 2 || len(shown) > 40 {
				continue
			}
			shown[v.Signature+"|"+v.Kind]++
			lines++
			b, _ := json.MarshalIndent(v, "", " ")
			sum := sha256.Sum256(b)
			path := filepath.Join(root, "replays", p.ID, hex.EncodeToString(sum[:6])+".json")
			os.WriteFile(path, b, 0o644)
			fmt.Printf("VIOLATION property=%s replay=%s\n", p.ID, path)
			fmt.Printf("  signature=%q case=%d: %s\n", v.Signature, v.Idx, firstLine(v.Witness))
		}
	}
	return code
}

// FatalSig classifies a worker death; properties may override.
var FatalSig = func(id, tail string) string { return "" }

func firstLine(s string) string {
	s = strings.TrimSpace(s)
	if i := strings.IndexByte(s, '\n'); i >= 0 {
		s = s[:i]
	}
	if len(s) > 300 {
		s = s[:300]
	}
	return s
}

func tailOfLog(path string, n int) string {
	b, err := os.ReadFile(path)
	if err != nil {
		return ""
	}
	lines := strings.Split(string(b), "\n")
	// prefer the part starting at "fatal error:" / "panic:" if present
	for i, l := range lines {
		if strings.HasPrefix(l, "fatal error:") || strings.HasPrefix(l, "panic:") || strings.Contains(l, "checkptr:") {
			end := i + n
			if end > len(lines) {
				end = len(lines)
			}
			var keep []string
			for _, l2 := range lines[i:end] {
				if len(keep) < 3 || strings.Contains(l2, "0chain/common") || strings.HasPrefix(l2, "goroutine ") {
					keep = append(keep, l2)
				}
			}
			return strings.Join(keep, "\n")
		}
	}
	if len(lines) > n {
		lines = lines[len(lines)-n:]
	}
	return strings.Join(lines, "\n")
}

// parseRaceLogs counts "WARNING: DATA RACE" blocks in work/race.* and de-duplicates them by the
// pair of outermost 0chain/common frames of the two conflicting accesses.
func parseRaceLogs(work string) (int, map[string]string) {
	files, _ := filepath.Glob(filepath.Join(work, "race.*"))
	blocks := 0
	pairs := map[string]string{}
	for _, f := range files {
		fh, err := os.Open(f)
		if err != nil {
			continue
		}
		sc := bufio.NewScanner(fh)
		sc.Buffer(make([]byte, 1<<20), 1<<20)
		var cur []string
		flush := func() {
			if len(cur) == 0 {
				return
			}
			blocks++
			pair := racePair(cur)
			if _, ok := pairs[pair]; !ok {
				b := strings.Join(cur, "\n")
				if len(b) > 3000 {
					b = b[:3000]
				}
				pairs[pair] = b
			}
			cur = nil
		}
		in := false
		for sc.Scan() {
			l := sc.Text()
			if strings.HasPrefix(l, "WARNING: DATA RACE") {
				flush()
				in = true
			}
			if in {
				if strings.HasPrefix(l, "==================") && len(cur) > 0 {
					flush()
					in = false
					continue
				}
				cur = append(cur, l)
			}
		}
		flush()
		fh.Close()
	}
	return blocks, pairs
}

func racePair(block []string) string {
	// sections: first access, previous access; each followed by frames "  pkg.Func()" / "      file:line"
	var secs [][]string
	var cur []string
	started := false
	for _, l := range block {
		t := strings.TrimSpace(l)
		isHead := strings.HasPrefix(t, "Read at") || strings.HasPrefix(t, "Write at") || strings.HasPrefix(t, "Previous read at") || strings.HasPrefix(t, "Previous write at") ||
			strings.HasPrefix(t, "Atomic") || strings.HasPrefix(t, "Previous atomic")
		if isHead {
			if started {
				secs = append(secs, cur)
			}
			cur = nil
			started = true
			continue
		}
		if strings.HasPrefix(t, "Goroutine ") {
			if started {
				secs = append(secs, cur)
				started = false
			}
			continue
		}
		if started && t != "" && !strings.HasPrefix(t, "/") {
			cur = append(cur, t)
		}
	}
	if started {
		secs = append(secs, cur)
	}
	var names []string
	for _, s := range secs {
		outer := ""
		for _, fr := range s {
			if strings.Contains(fr, "github.com/0chain/common") {
				outer = fr
			}
		}
		if outer == "" && len(s) > 0 {
			outer = s[0]
		}
		outer = strings.TrimSuffix(strings.TrimSpace(outer), "()")
		names = append(names, outer)
	}
	sort.Strings(names)
	return strings.Join(names, " <-> ")
}
