// Package wmlab holds the shared pieces for the weighted-trie properties (C09–C13, C15): a logging in-memory
// StorageAdapter, the (key -> value, weight) model with an independent reference hasher, generators and the full
// observational check.
package wmlab

import (
	"bytes"
	"encoding/binary"
	"fmt"
	"math/rand"
	"sort"
	"sync"

	"github.com/0chain/common/core/util/storage"
	"github.com/0chain/common/core/util/wmpt"
	"golang.org/x/crypto/sha3"
)

// ---------------- storage adapter ----------------

type StoreOp struct {
	Batch bool
	Puts  [][]byte // keys put
	Dels  [][]byte // keys deleted
}

// Mem is an in-memory StorageAdapter that logs every physical operation (a committed batch is one atomic operation)
// and calls OnOp after each one (used to check the store between any two operations).
type Mem struct {
	mu   sync.Mutex
	M    map[string][]byte
	Log  []StoreOp
	OnOp func(op StoreOp)
	Ops  int
}

func NewMem() *Mem { return &Mem{M: map[string][]byte{}} }

func (s *Mem) Get(k []byte) ([]byte, error) {
	s.mu.Lock()
	defer s.mu.Unlock()
	v, ok := s.M[string(k)]
	if !ok {
		return nil, wmpt.ErrKVNotFound
	}
	return append([]byte(nil), v...), nil
}

func (s *Mem) apply(op StoreOp, vals map[string][]byte) {
	s.mu.Lock()
	for _, k := range op.Dels {
		delete(s.M, string(k))
	}
	for _, k := range op.Puts {
		s.M[string(k)] = vals[string(k)]
	}
	// within a batch the last operation on a key wins: replay in order is done by the batch itself (see Commit)
	s.Log = append(s.Log, op)
	s.Ops++
	cb := s.OnOp
	s.mu.Unlock()
	if cb != nil {
		cb(op)
	}
}

func (s *Mem) Put(k, v []byte) error {
	s.apply(StoreOp{Puts: [][]byte{cp(k)}}, map[string][]byte{string(k): cp(v)})
	return nil
}

func (s *Mem) Delete(k []byte) error {
	s.apply(StoreOp{Dels: [][]byte{cp(k)}}, nil)
	return nil
}

func (s *Mem) Close() {}

func (s *Mem) NewBatch() storage.Batcher { return &memBatch{s: s} }

// Snapshot copies the key -> value map.
func (s *Mem) Snapshot() map[string][]byte {
	s.mu.Lock()
	defer s.mu.Unlock()
	o := make(map[string][]byte, len(s.M))
	for k, v := range s.M {
		o[k] = v
	}
	return o
}

// Clone returns an independent store with the same content (no log, no callback).
func (s *Mem) Clone() *Mem {
	return &Mem{M: s.Snapshot()}
}

func (s *Mem) KeySet() map[string]bool {
	s.mu.Lock()
	defer s.mu.Unlock()
	o := make(map[string]bool, len(s.M))
	for k := range s.M {
		o[k] = true
	}
	return o
}

type bop struct {
	k, v []byte
	del  bool
}

type memBatch struct {
	mu  sync.Mutex
	s   *Mem
	ops []bop
}

func (b *memBatch) Put(k, v []byte) error {
	b.mu.Lock()
	b.ops = append(b.ops, bop{cp(k), cp(v), false})
	b.mu.Unlock()
	return nil
}

func (b *memBatch) Delete(k []byte) error {
	b.mu.Lock()
	b.ops = append(b.ops, bop{cp(k), nil, true})
	b.mu.Unlock()
	return nil
}

func (b *memBatch) Commit(bool) error {
	b.mu.Lock()
	ops := b.ops
	b.ops = nil
	b.mu.Unlock()
	// final state per key, in order
	final := map[string]bop{}
	var order []string
	for _, o := range ops {
		if _, ok := final[string(o.k)]; !ok {
			order = append(order, string(o.k))
		}
		final[string(o.k)] = o
	}
	op := StoreOp{Batch: true}
	vals := map[string][]byte{}
	for _, k := range order {
		o := final[k]
		if o.del {
			op.Dels = append(op.Dels, o.k)
		} else {
			op.Puts = append(op.Puts, o.k)
			vals[k] = o.v
		}
	}
	b.s.apply(op, vals)
	return nil
}

func cp(b []byte) []byte { return append([]byte(nil), b...) }

// ---------------- model + reference hasher ----------------

type Entry struct {
	Val []byte
	W   uint64
}

type Model map[string]Entry // key (32 raw bytes as string) -> entry

func (m Model) Copy() Model {
	o := make(Model, len(m))
	for k, v := range m {
		o[k] = v
	}
	return o
}

func (m Model) Keys() []string {
	ks := make([]string, 0, len(m))
	for k := range m {
		ks = append(ks, k)
	}
	sort.Strings(ks)
	return ks
}

func (m Model) Weight() uint64 {
	var w uint64
	for _, e := range m {
		w += e.W
	}
	return w
}

// Owner returns the key whose cumulative-weight interval (in key order) contains block (1-based).
func (m Model) Owner(block uint64) (string, bool) {
	if block == 0 {
		return "", false
	}
	for _, k := range m.Keys() {
		if block <= m[k].W {
			return k, true
		}
		block -= m[k].W
	}
	return "", false
}

func h256(b []byte) []byte { h := sha3.Sum256(b); return h[:] }

func be64(v uint64) []byte { b := make([]byte, 8); binary.BigEndian.PutUint64(b, v); return b }

var EmptyHash = h256(nil)

type went struct {
	rem []byte
	val []byte
	w   uint64
}

// ValueHash / ShortHash expose the reference node hashes (used to compute shared hashes in C11).
func ValueHash(val []byte, w uint64) []byte { return h256(append(be64(w), val...)) }

func wref(es []went, collect func(kind string, h []byte)) ([]byte, uint64) {
	if len(es) == 0 {
		return EmptyHash, 0
	}
	if len(es) == 1 {
		vh := ValueHash(es[0].val, es[0].w)
		if collect != nil {
			collect("value", vh)
		}
		if len(es[0].rem) == 0 {
			return vh, es[0].w
		}
		sh := h256(append(append([]byte(nil), es[0].rem...), vh...))
		if collect != nil {
			collect("short", sh)
		}
		return sh, es[0].w
	}
	cpx := es[0].rem
	for _, e := range es[1:] {
		i := 0
		for i < len(cpx) && i < len(e.rem) && cpx[i] == e.rem[i] {
			i++
		}
		cpx = cpx[:i]
	}
	if len(cpx) > 0 {
		sub := make([]went, len(es))
		for i, e := range es {
			sub[i] = went{e.rem[len(cpx):], e.val, e.w}
		}
		bh, w := wrefBranch(sub, collect)
		sh := h256(append(append([]byte(nil), cpx...), bh...))
		if collect != nil {
			collect("short", sh)
		}
		return sh, w
	}
	return wrefBranch(es, collect)
}

func wrefBranch(es []went, collect func(kind string, h []byte)) ([]byte, uint64) {
	groups := map[byte][]went{}
	var total uint64
	for _, e := range es {
		groups[e.rem[0]] = append(groups[e.rem[0]], went{e.rem[1:], e.val, e.w})
		total += e.w
	}
	m := be64(total)
	for c := byte(0); c < 16; c++ {
		if g, ok := groups[c]; ok {
			h, _ := wref(g, collect)
			m = append(m, h...)
		} else {
			m = append(m, EmptyHash...)
		}
	}
	bh := h256(m)
	if collect != nil {
		collect("branch", bh)
	}
	return bh, total
}

func nibbles(k string) []byte {
	nib := make([]byte, 2*len(k))
	for i := 0; i < len(k); i++ {
		nib[2*i] = k[i] / 16
		nib[2*i+1] = k[i] % 16
	}
	return nib
}

// Ref returns the reference root hash and total weight of the canonical weighted trie holding m.
func (m Model) Ref() ([]byte, uint64) {
	return m.RefCollect(nil)
}

// RefCollect additionally reports every node hash of the canonical trie.
func (m Model) RefCollect(collect func(kind string, h []byte)) ([]byte, uint64) {
	var es []went
	for _, k := range m.Keys() {
		es = append(es, went{nibbles(k), m[k].Val, m[k].W})
	}
	return wref(es, collect)
}

// NodeHashes returns hash -> number of positions in the canonical trie at which that hash occurs.
func (m Model) NodeHashes() map[string]int {
	o := map[string]int{}
	m.RefCollect(func(kind string, h []byte) { o[string(h)]++ })
	return o
}

// ---------------- generators ----------------

// WeightOf is the fixed function value -> weight (the property's domain: a key's weight is determined by its value).
func WeightOf(val []byte) uint64 {
	var s uint64
	for _, b := range val {
		s = s*31 + uint64(b)
	}
	return 1 + s%5
}

type Gen struct {
	R      *rand.Rand
	Ctr    int
	Shared bool // draw values from a tiny pool so that different keys hold identical content
	Tag    string
}

func (g *Gen) Value() ([]byte, uint64) {
	g.Ctr++
	var v []byte
	if g.Shared {
		v = []byte(fmt.Sprintf("sv-%d", g.R.Intn(3)))
	} else {
		v = []byte(fmt.Sprintf("val-%s%d", g.Tag, g.Ctr))
		if g.R.Intn(5) == 0 { // long values: 40..120 bytes, unique tail beyond byte 32
			pad := make([]byte, 36+g.R.Intn(80))
			for i := range pad {
				pad[i] = 'a' + byte(i%23)
			}
			v = append(append([]byte("long-value-with-a-common-32-byte-head/"), pad...), v...)
		}
	}
	return v, WeightOf(v)
}

// SameWeightValue returns a fresh value whose weight equals w.
func (g *Gen) SameWeightValue(w uint64) []byte {
	for {
		v, vw := g.Value()
		if vw == w {
			return v
		}
	}
}

// Upd calls t.Update with caller-owned copies of key and value and overwrites both buffers after the call returned:
// key and value belong to the caller, nothing the trie keeps may point into them.
var updCalls int // per worker process; every fifth insert goes through Put, every fifth delete through Delete

func Upd(t *wmpt.WeightedMerkleTrie, k, v []byte, w uint64) error {
	kb := append([]byte(nil), k...)
	var vb []byte
	if len(v) > 0 {
		vb = append([]byte(nil), v...)
	}
	var err error
	updCalls++
	switch {
	case len(vb) > 0 && len(kb) == 32 && updCalls%5 == 0 && t.GetRoot() != nil:
		err = t.Put(kb, vb, w) // the second insert entry point
	case len(vb) == 0 && len(kb) == 32 && updCalls%5 == 1 && t.GetRoot() != nil:
		_, err = t.Delete(kb) // the second delete entry point
	default:
		err = t.Update(kb, vb, w)
	}
	for i := range kb {
		kb[i] ^= 0xa5
	}
	for i := range vb {
		vb[i] ^= 0xa5
	}
	return err
}

// Key returns a 32-byte key; with existing keys it often copies a random-length nibble prefix (0..63 nibbles) of one.
func (g *Gen) Key(existing []string) []byte {
	k := make([]byte, 32)
	g.R.Read(k)
	if len(existing) > 0 && g.R.Intn(10) < 6 {
		src := existing[g.R.Intn(len(existing))]
		n := g.R.Intn(64) // nibbles to copy
		for i := 0; i < n/2; i++ {
			k[i] = src[i]
		}
		if n%2 == 1 {
			k[n/2] = src[n/2]&0xf0 | k[n/2]&0x0f
		}
		// make sure the next nibble differs so the shared prefix has exactly that length (when possible)
		if n < 64 {
			if n%2 == 0 {
				if k[n/2]&0xf0 == src[n/2]&0xf0 {
					k[n/2] ^= 0x10
				}
			} else if k[n/2]&0x0f == src[n/2]&0x0f {
				k[n/2] ^= 0x01
			}
		}
	} else if g.R.Intn(4) == 0 {
		k[0] &= 0x3f // few first nibbles so that root branch slots collide
	}
	return k
}

// ---------------- observational check ----------------

// CheckFull compares a trie with the model: total weight; optionally root; for every block b the owner, and the
// proof verifying to the reference root with the owner's value; block W+1 must be refused.
func CheckFull(t *wmpt.WeightedMerkleTrie, m Model, checkRoot bool) string {
	wr, ww := m.Ref()
	if t.Weight() != ww {
		return fmt.Sprintf("Weight() = %d, sum of live weights = %d", t.Weight(), ww)
	}
	if checkRoot {
		if got := t.Root(); !bytes.Equal(got, wr) {
			return fmt.Sprintf("Root() = %x, independent reference root = %x", got, wr)
		}
	}
	// the keys and proofs handed out are kept (an ownership table) and looked at again after all calls; a kept proof
	// and value are overwritten right after use: results belong to the caller
	var keptKeys [][]byte
	var keptOwners []string
	for b := uint64(1); b <= ww; b++ {
		k, proof, err := t.GetBlockProof(b)
		if err != nil {
			return fmt.Sprintf("GetBlockProof(%d of %d) failed: %v", b, ww, err)
		}
		owner, _ := m.Owner(b)
		if string(k) != owner {
			return fmt.Sprintf("block %d of %d is owned by key %x, GetBlockProof names %x", b, ww, owner, k)
		}
		if len(keptKeys) < 64 {
			keptKeys, keptOwners = append(keptKeys, k), append(keptOwners, owner)
		}
		v := wmpt.New(nil, nil)
		h, val, err := v.VerifyBlockProof(b, proof)
		if err != nil {
			return fmt.Sprintf("honest proof of block %d does not verify: %v", b, err)
		}
		if !bytes.Equal(h, wr) {
			return fmt.Sprintf("honest proof of block %d verifies to root %x, reference root is %x", b, h, wr)
		}
		if !bytes.Equal(val, m[owner].Val) {
			return fmt.Sprintf("proof of block %d yields value %q, the owner's value is %q", b, val, m[owner].Val)
		}
		for i := range proof {
			proof[i] ^= 0x5a
		}
		for i := range val {
			val[i] ^= 0x5a
		}
	}
	for i, k := range keptKeys {
		if string(k) != keptOwners[i] {
			return fmt.Sprintf("the key returned for block %d (%x) changed to %x after later GetBlockProof calls", i+1, keptOwners[i], k)
		}
	}
	if _, _, err := t.GetBlockProof(ww + 1); err == nil && ww > 0 {
		return fmt.Sprintf("GetBlockProof(%d) beyond the total weight %d succeeded", ww+1, ww)
	}
	return ""
}

// Reopen builds a trie from just (root hash, weight) on a store.
func Reopen(root []byte, weight uint64, db storage.StorageAdapter) *wmpt.WeightedMerkleTrie {
	if weight == 0 {
		return wmpt.New(nil, db)
	}
	return wmpt.New(wmpt.NewHashNode(root, weight), db)
}

func KeyStr(k []byte) string { return fmt.Sprintf("%x..%x", k[:3], k[29:]) }
