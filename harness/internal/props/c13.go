package props

import (
	"bytes"
	"fmt"
	"strings"

	"github.com/0chain/common/core/util/wmpt"

	"verif/harness/internal/fw"
	wl "verif/harness/internal/wmlab"
)

// C13 — rolling back a weighted-trie commit restores the checkpoint exactly.

func runC13(c *fw.Ctx) {
	r := c.Rng
	g := &wl.Gen{R: r}
	st := wl.NewMem()
	t := wmpt.New(nil, st)
	m := wl.Model{}
	fail := func(sig, format string, a ...any) {
		c.Violate(sig, "%s\ntrace: %s", fmt.Sprintf(format, a...), strings.Join(c.Trace(), "; "))
	}
	kinds := map[string]int{}
	mutate := func(n int, phase2 bool) bool {
		if phase2 && len(m) > 0 && len(m) <= 5 && r.Intn(12) == 0 { // the batch deletes every entry: the trie is empty afterwards
			for _, k := range m.Keys() {
				c.Tracef("del %s", wl.KeyStr([]byte(k)))
				if err := wl.Upd(t, []byte(k), nil, 0); err != nil {
					fail("", "delete failed: %v", err)
					return false
				}
				delete(m, k)
			}
			kinds["deleted"]++
			c.Count("batches_that_empty_the_trie", 1)
			return true
		}
		for i := 0; i < n; i++ {
			if i > 0 && r.Intn(5) == 0 {
				// a proof (or the root) is read in the middle of the batch: the unsaved nodes get their hashes now, and later
				// operations of the same batch supersede some of them before they were ever stored
				if w0 := t.Weight(); w0 > 0 && r.Intn(2) == 0 {
					c.Tracef("GetBlockProof in the middle of the batch")
					_, _, _ = t.GetBlockProof(1 + uint64(r.Intn(int(w0))))
				} else {
					c.Tracef("Root() in the middle of the batch")
					_ = t.Root()
				}
				c.Count("hash_reads_in_the_middle_of_a_batch", 1)
			}
			keys := m.Keys()
			x := r.Intn(12)
			switch {
			case x < 5 || len(keys) == 0:
				k := g.Key(keys)
				v, w := g.Value()
				c.Tracef("upd %s=%s", wl.KeyStr(k), v)
				if err := wl.Upd(t, k, v, w); err != nil {
					fail("", "Update failed: %v", err)
					return false
				}
				m[string(k)] = wl.Entry{Val: v, W: w}
				kinds["new"]++
			case x < 7:
				k := keys[r.Intn(len(keys))]
				v, w := g.Value()
				c.Tracef("change %s=%s", wl.KeyStr([]byte(k)), v)
				if err := wl.Upd(t, []byte(k), v, w); err != nil {
					fail("", "Update failed: %v", err)
					return false
				}
				m[k] = wl.Entry{Val: v, W: w}
				kinds["changed"]++
			case x < 9:
				k := keys[r.Intn(len(keys))]
				c.Tracef("del %s", wl.KeyStr([]byte(k)))
				if err := wl.Upd(t, []byte(k), nil, 0); err != nil {
					fail("", "delete failed: %v", err)
					return false
				}
				delete(m, k)
				kinds["deleted"]++
			case x < 10 && phase2:
				k := keys[r.Intn(len(keys))]
				e := m[k]
				c.Tracef("rewrite-unchanged %s", wl.KeyStr([]byte(k)))
				if err := wl.Upd(t, []byte(k), e.Val, e.W); err != nil {
					fail("", "Update failed: %v", err)
					return false
				}
				kinds["unchanged-rewrite"]++
			case phase2:
				k := keys[r.Intn(len(keys))]
				e := m[k]
				c.Tracef("del+re-add %s", wl.KeyStr([]byte(k)))
				if err := wl.Upd(t, []byte(k), nil, 0); err != nil {
					fail("", "delete failed: %v", err)
					return false
				}
				if err := wl.Upd(t, []byte(k), e.Val, e.W); err != nil {
					fail("", "Update failed: %v", err)
					return false
				}
				kinds["del-readd-identical"]++
			}
		}
		return true
	}
	commit := func(lvl int) bool {
		c.Tracef("commit(%d)", lvl)
		b, err := t.Commit(lvl)
		if err != nil {
			fail("", "Commit failed: %v", err)
			return false
		}
		if err := b.Commit(true); err != nil {
			fail("", "batch commit failed: %v", err)
			return false
		}
		return true
	}
	lvl := r.Intn(6)
	emptyCheckpoint := r.Intn(12) == 0
	if !emptyCheckpoint {
		if !mutate(1+r.Intn(8), false) || !commit(lvl) {
			return
		}
		if r.Intn(2) == 0 {
			c.Tracef("gc")
			_ = t.DeleteNodes()
		}
	}
	ncycles := 1 + r.Intn(2)
	for cycle := 0; cycle < ncycles; cycle++ {
		via := "Rollback"
		if r.Intn(2) == 0 {
			via = "RollbackTrie"
		}
		// the checkpoint's content was saved once before: SaveRoot there, a committed detour, garbage collection of what
		// only the earlier state used, and a committed return to exactly that content (same root hash and weight as saved)
		if len(m) > 0 && r.Intn(6) == 0 {
			a := m.Copy()
			c.Tracef("SaveRoot (earlier visit of the checkpoint's content)")
			t.SaveRoot()
			if !mutate(1+r.Intn(5), true) || !commit(lvl) {
				return
			}
			for i, n := 0, 1+r.Intn(3); i < n; i++ {
				c.Tracef("gc")
				_ = t.DeleteNodes()
			}
			c.Tracef("return to the saved content")
			for _, k := range m.Keys() {
				if _, ok := a[k]; !ok {
					if err := wl.Upd(t, []byte(k), nil, 0); err != nil {
						fail("", "return: delete failed: %v", err)
						return
					}
				}
			}
			for _, k := range a.Keys() {
				if e, ok := m[k]; !ok || string(e.Val) != string(a[k].Val) || e.W != a[k].W {
					if err := wl.Upd(t, []byte(k), a[k].Val, a[k].W); err != nil {
						fail("", "return: update failed: %v", err)
						return
					}
				}
			}
			m = a
			if !commit(lvl) {
				return
			}
			if r.Intn(3) == 0 {
				c.Tracef("gc")
				_ = t.DeleteNodes()
			}
			c.Count("checkpoints_at_a_content_saved_before", 1)
		}
		// RollbackTrie is handed its checkpoint: half of those histories never call SaveRoot
		savedRoot := via == "Rollback" || r.Intn(2) == 0
		if savedRoot {
			t.SaveRoot()
		} else {
			c.Count("checkpoints_without_SaveRoot", 1)
		}
		cm := m.Copy()
		croot, cw := cm.Ref()
		var copied wmpt.Node // alternative checkpoint object for RollbackTrie: a copy of the live root
		if cw > 0 {
			copied = t.CopyRoot(r.Intn(8))
		}
		s0 := st.KeySet()
		c.Tracef("checkpoint (SaveRoot called: %v) root=%x weight=%d", savedRoot, croot[:4], cw)
		// the batch is never committed: the block is abandoned and rolled back as it is (only from a checkpoint taken with
		// SaveRoot: without it the trie cannot know that its last commit is the checkpoint's own and not part of the batch)
		abandoned := savedRoot && r.Intn(6) == 0
		if !mutate(1+r.Intn(8), true) {
			return
		}
		if w0 := t.Weight(); w0 > 0 && r.Intn(6) == 0 { // a block proof is read while the batch is still uncommitted
			c.Tracef("GetBlockProof on the uncommitted batch")
			_, _, _ = t.GetBlockProof(1 + uint64(r.Intn(int(w0))))
			c.Count("proofs_read_on_the_uncommitted_batch", 1)
		}
		if r.Intn(4) == 0 { // a garbage-collection pass while the batch is still uncommitted (it has nothing to do yet)
			c.Tracef("gc (batch not committed yet)")
			_ = t.DeleteNodes()
			c.Count("gc_passes_on_the_uncommitted_batch", 1)
		}
		if abandoned {
			c.Count("abandoned_batches_rolled_back", 1)
		} else if !commit(lvl) {
			return
		}
		s1 := st.KeySet()
		mixed := !abandoned && r.Intn(8) == 0
		if mixed {
			// the committed batch is followed by more changes that are never committed: the rollback undoes both
			if !mutate(1+r.Intn(4), true) {
				return
			}
			c.Count("uncommitted_changes_on_top_of_the_committed_batch", 1)
		}
		gcBetween := r.Intn(2) == 0
		if gcBetween {
			c.Tracef("gc")
			_ = t.DeleteNodes()
		}
		if !mixed && r.Intn(4) == 0 { // a second flush with nothing to write (not after uncommitted changes: a second real commit since the checkpoint is outside the property) (optionally after a rejected delete of an absent key)
			if r.Intn(2) == 0 {
				absent := g.Key(nil)
				if _, ok := m[string(absent)]; !ok {
					_ = wl.Upd(t, absent, nil, 0)
				}
			}
			c.Tracef("commit(%d) again with nothing to write", lvl)
			if b2, err := t.Commit(lvl); err == nil {
				_ = b2.Commit(true)
			}
			c.Count("empty_commits_before_rollback", 1)
		}
		if via == "RollbackTrie" {
			c.Tracef("RollbackTrie(checkpoint hash node)")
			if cw > 0 && r.Intn(2) == 0 {
				c.Tracef("(checkpoint object = CopyRoot taken at the checkpoint)")
				t.RollbackTrie(copied)
				c.Count("rollbacks_to_a_copied_root", 1)
			} else if cw > 0 {
				t.RollbackTrie(wmpt.NewHashNode(croot, cw))
			} else {
				t.RollbackTrie(nil)
			}
		} else {
			c.Tracef("Rollback()")
			t.Rollback()
		}
		check := func(when string) bool {
			if got := t.Root(); !bytes.Equal(got, croot) {
				fail("", "%s: Root() = %x, the checkpoint's root is %x", when, got, croot)
				return false
			}
			if t.Weight() != cw {
				fail("", "%s: Weight() = %d, the checkpoint's weight is %d", when, t.Weight(), cw)
				return false
			}
			if f := wl.CheckFull(t, cm, true); f != "" {
				fail("", "%s: the rolled-back live trie: %s", when, f)
				return false
			}
			if f, _ := c11resolvable(c11committed{root: croot, w: cw, model: cm}, st.Clone()); f != "" {
				fail("", "%s: a trie reopened from the checkpoint root: %s", when, f)
				return false
			}
			return true
		}
		if !check("after " + via) {
			return
		}
		s2 := st.KeySet()
		for k := range s1 {
			if !s0[k] && s2[k] {
				fail("", "after %s a node created only by the rolled-back commit is still in storage (%x)", via, k)
				return
			}
		}
		c.Count("rollbacks", 1)
		c.Count("rollback_via:"+via, 1)
		if gcBetween {
			c.Count("gc_between_commit_and_rollback", 1)
		}
		for k, n := range kinds {
			c.Count("change:"+k, int64(n))
		}
		// thorough tier and every 4th quick case: two GC passes after the rollback, checkpoint must stay resolvable
		if !c.Quick() || (c.Idx/16+c.Idx)%4 == 0 {
			for i := 0; i < 2; i++ {
				c.Tracef("gc (after rollback)")
				_ = t.DeleteNodes()
			}
			if !check("after " + via + " followed by two garbage-collection passes") {
				return
			}
			c.Count("post_rollback_gc_checks", 1)
		}
		// retry: apply the rolled-back batch again (same resulting content), commit and roll back once more; the second
		// rollback must again leave nothing behind and keep the checkpoint
		if r.Intn(3) == 0 {
			target := m.Copy() // content the rolled-back commit had produced
			m = cm.Copy()
			c.Tracef("retry the rolled-back batch")
			t.SaveRoot()
			for _, k := range cm.Keys() {
				if _, ok := target[k]; !ok {
					if err := wl.Upd(t, []byte(k), nil, 0); err != nil {
						fail("", "retry: delete failed: %v", err)
						return
					}
				}
			}
			for _, k := range target.Keys() {
				if e, ok := cm[k]; !ok || string(e.Val) != string(target[k].Val) {
					if err := wl.Upd(t, []byte(k), target[k].Val, target[k].W); err != nil {
						fail("", "retry: update failed: %v", err)
						return
					}
				}
			}
			m = target
			if !commit(lvl) {
				return
			}
			c.Tracef("Rollback() of the retried batch")
			if via == "RollbackTrie" && cw > 0 {
				t.RollbackTrie(wmpt.NewHashNode(croot, cw))
			} else if via == "RollbackTrie" {
				t.RollbackTrie(nil)
			} else {
				t.Rollback()
			}
			if !check("after rolling back the retried batch") {
				return
			}
			s3 := st.KeySet()
			for k := range s3 {
				if !s0[k] && !s2[k] {
					fail("", "after rolling back the retried batch a node created only by the rolled-back commits is still in storage (%x)", k)
					return
				}
			}
			c.Count("retried_batches_rolled_back", 1)
		}
		// the rolled-back trie must stay usable: continue from the checkpoint with new changes, commit, check, reopen
		m = cm.Copy()
		if r.Intn(2) == 0 || cycle+1 < ncycles {
			if !mutate(1+r.Intn(5), true) || !commit(lvl) {
				return
			}
			if f := wl.CheckFull(t, m, true); f != "" {
				fail("", "commit after %s: %s", via, f)
				return
			}
			nr, nw := m.Ref()
			if f, _ := c11resolvable(c11committed{root: nr, w: nw, model: m}, st.Clone()); f != "" {
				fail("", "trie reopened from the root committed after %s: %s", via, f)
				return
			}
			c.Count("commits_after_rollback", 1)
		}
	}
	c.NonTrivial(fw.Hash64(strings.Join(c.Trace(), ";")))
	if c.Idx < 3 {
		c.Sample(map[string]any{"history": c.Trace()})
	}
}

func init() {
	fw.Register(&fw.Prop{
		ID:    "C13",
		Level: "exploration",
		Rule: "each case: build and commit a checkpoint state at a collapse level 0..5 (1 in 12 with an empty checkpoint; optionally one GC pass), SaveRoot, then 1..8 changes (new keys, changed values, unchanged re-writes, delete-and-re-add of identical content, deletes), " +
			"commit at the same level (one batch in six from a SaveRoot checkpoint is never committed: the block is abandoned and rolled back as it is; one batch in twelve on a small trie deletes every entry; one committed batch in eight is followed by further changes that are never committed; a quarter of the batches see a garbage-collection pass and a sixth a block-proof read while still uncommitted), optionally one GC pass, optionally a second Commit with nothing to write (possibly after a rejected delete of an absent key), then Rollback() or RollbackTrie (half of the RollbackTrie histories never call SaveRoot - the checkpoint is what the caller noted -; with a hash node, or with a CopyRoot(level) copy taken at the checkpoint). Oracle: Root()/Weight() equal the checkpoint's; the full observational check (every block's owner, value, verifying proof; every canonical node present) passes on the live trie and on a trie reopened " +
			"from the checkpoint root; with S0/S1/S2 the storage key sets at checkpoint / after the commit / after rollback, (S1 \\ S0) ∩ S2 is empty; a quarter of the quick cases and all thorough cases add two GC passes after the rollback and repeat the checks; a third of the histories then apply the same batch again, commit and roll back a second time (nothing of either commit may remain); then the history continues from the rolled-back trie (new changes, commit, full check, reopen), and half of the histories run a second checkpoint/commit/rollback cycle. distinct non-trivial = distinct traces",
		Cases: func(tier string) int {
			if tier == "thorough" {
				return 400000
			}
			return 24000
		},
		Run: runC13,
		Floors: map[string]int64{"hash_reads_in_the_middle_of_a_batch": 15000, "checkpoints_at_a_content_saved_before": 2500, "rollbacks": 20000, "rollback_via:Rollback": 8000, "rollback_via:RollbackTrie": 8000, "gc_between_commit_and_rollback": 8000, "change:unchanged-rewrite": 3000, "change:del-readd-identical": 3000,
			"change:new": 20000, "change:deleted": 5000, "post_rollback_gc_checks": 4000, "commits_after_rollback": 10000, "retried_batches_rolled_back": 4000, "rollbacks_to_a_copied_root": 3000, "empty_commits_before_rollback": 4000, "abandoned_batches_rolled_back": 2500, "gc_passes_on_the_uncommitted_batch": 5000, "batches_that_empty_the_trie": 800, "proofs_read_on_the_uncommitted_batch": 3000, "uncommitted_changes_on_top_of_the_committed_batch": 2000, "checkpoints_without_SaveRoot": 4000},
		Assumptions: []string{"at most one GC pass between the commit and the rollback (the property's domain)"},
	})
}
