package props

import (
	"bytes"
	"fmt"
	"sync"

	"github.com/0chain/common/core/statecache"
	"github.com/0chain/common/core/util"

	"verif/harness/internal/fw"
)

// C07, several caches at once: goroutines that share nothing - each has a state cache of its own, its own blocks and its
// own node values - write, commit and read at the same time. The copies a cache makes of its values may not depend on
// what an unrelated cache is copying at that moment (scratch state shared behind the scenes shows as foreign content).
func c07parallel(c *fw.Ctx) {
	const G, blocks, keys = 6, 24, 5
	mk := func(g, b, k int) statecache.Value {
		tok := fmt.Sprintf("g%d/b%d/k%d/%s", g, b, k, bytes.Repeat([]byte{byte('a' + g)}, 20+7*k+b))
		switch (g + b + k) % 3 {
		case 0:
			ln := util.NewLeafNode(util.Path("ab"), util.Path(fmt.Sprintf("c%x", g)), util.Sequence(b), &util.SecureSerializableValue{Buffer: []byte(tok)})
			return ln
		case 1:
			fn := util.NewFullNode(&util.SecureSerializableValue{Buffer: []byte(tok)})
			fn.PutChild('a', bytes.Repeat([]byte{byte(g)}, 32))
			fn.SetOrigin(util.Sequence(b))
			return fn
		default:
			key := bytes.Repeat([]byte{byte(g*16 + k)}, 32)
			en := util.NewExtensionNode(util.Path(fmt.Sprintf("abc%x%x", g, b)), key)
			en.SetOrigin(util.Sequence(b))
			return en
		}
	}
	var wg sync.WaitGroup
	var mu sync.Mutex
	var bad []string
	var reads int64
	for g := 0; g < G; g++ {
		wg.Add(1)
		go func(g int) {
			defer wg.Done()
			sc := statecache.NewStateCache()
			prev := ""
			n := int64(0)
			for b := 0; b < blocks; b++ {
				h := fmt.Sprintf("g%d-b%d", g, b)
				bc := statecache.NewBlockCache(sc, statecache.Block{Round: int64(b), Hash: h, PrevHash: prev})
				tc := statecache.NewTransactionCache(bc)
				for k := 0; k < keys; k++ {
					tc.Set(fmt.Sprintf("k%d", k), mk(g, b, k))
				}
				tc.Commit()
				bc.Commit()
				for k := 0; k < keys; k++ {
					want := content(mk(g, b, k))
					for _, read := range []func() (statecache.Value, bool){
						func() (statecache.Value, bool) { return sc.Get(fmt.Sprintf("k%d", k), h) },
						func() (statecache.Value, bool) { return bc.Get(fmt.Sprintf("k%d", k)) },
					} {
						v, ok := read()
						n++
						if !ok {
							continue // only a hit is judged here
						}
						if got := content(v); got != want {
							mu.Lock()
							bad = append(bad, fmt.Sprintf("cache %d, block %s, key k%d: hit %.160s, written %.160s", g, h, k, got, want))
							mu.Unlock()
							return
						}
					}
				}
				prev = h
			}
			mu.Lock()
			reads += n
			mu.Unlock()
		}(g)
	}
	wg.Wait()
	if len(bad) > 0 {
		c.Violate("", "%d unrelated state caches used at the same time: %s", G, bad[0])
		return
	}
	c.Count("parallel_runs_of_unrelated_caches", 1)
	c.Count("lookups_in_parallel_runs", reads)
	c.NonTrivial(fw.Hash64("c07par", c.Idx))
}
