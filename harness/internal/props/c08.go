package props

import (
	"fmt"
	"math/rand"
	"runtime"
	"sort"
	"strings"
	"sync"
	"sync/atomic"
	"time"

	"github.com/0chain/common/core/statecache"

	"verif/harness/internal/fw"
	"verif/harness/internal/sched"
)

// C08 — cache answers stay correct under concurrent readers and committers.
// Mode A: controlled schedules through the verif yield hook. Mode B: free running under the race detector.

// The hook variable is written once (before any goroutine exists); what it dispatches to is switched atomically,
// so that the monitor itself never races with the code under test.
var c08hook atomic.Value // of func(string)

func init() {
	c08hook.Store(func(string) {})
	statecache.VerifYield = func(p string) { c08hook.Load().(func(string))(p) }
}

func c08setHook(f func(string)) {
	if f == nil {
		f = func(string) {}
	}
	c08hook.Store(f)
}

type c08read struct {
	who, key, ctx string
	got           string
	ok            bool
	afterCommit   bool // the call started after Commit(ctx block) had returned
}

// static truth of the mode-A scenarios: A(k1=a1,k3=a3) <- B(x=b1) <- C(k1=c1,k2=c2, removes k3) <- E(k1=e1); D open child of C (own k4=d4)
var c08truth = map[string]map[string]string{
	"A": {"k1": "a1", "k3": "a3"},
	"B": {"k1": "a1", "k3": "a3", "x": "b1"},
	"C": {"k1": "c1", "k2": "c2", "x": "b1"},
	"E": {"k1": "e1", "k2": "c2", "x": "b1"},
	"D": {"k1": "c1", "k2": "c2", "x": "b1", "k4": "d4"},
	// out-of-order shape: B2 (child of A, writes k1,k5) is committed AFTER its child D2 (no writes)
	"B2": {"k1": "b21", "k5": "b25", "k3": "a3"},
	"D2": {"k1": "b21", "k5": "b25", "k3": "a3"},
	// second committer: F, child of B, writes k1, k2 and the brand-new key k6
	"F": {"k1": "f1", "k2": "f2", "k6": "f6", "k3": "a3", "x": "b1"},
}

var c08keys = []string{"k1", "k2", "k3", "k4", "k5", "k6", "x"}

type c08env struct {
	sc        *statecache.StateCache
	bcC, bcD  *statecache.BlockCache
	bcD2      *statecache.BlockCache
	tcD2      *statecache.TransactionCache
	bcE       *statecache.BlockCache
	tcD       *statecache.TransactionCache
	mu        sync.Mutex
	reads     []c08read
	committed map[string]*int32
	useE      bool
	bcB2, bcF *statecache.BlockCache
	extra     []string // blocks (beyond A, B, C) whose commits complete during the scenario: swept at the end
}

func c08commitBlock(sc *statecache.StateCache, hash, prev string, round int64, set map[string]string, remove []string) {
	bc, tc := statecache.NewBlockTxnCaches(sc, statecache.Block{Round: round, Hash: hash, PrevHash: prev})
	for k, v := range set {
		tc.Set(k, statecache.String(v))
	}
	for _, k := range remove {
		tc.Remove(k)
	}
	tc.Commit()
	bc.Commit()
}

func newC08env(useE bool, full bool) *c08env {
	e := &c08env{sc: statecache.NewStateCache(), committed: map[string]*int32{}, useE: useE}
	for _, b := range []string{"A", "B", "C", "E", "B2", "D2", "F"} {
		e.committed[b] = new(int32)
	}
	c08commitBlock(e.sc, "A", "", 1, map[string]string{"k1": "a1", "k3": "a3"}, nil)
	c08commitBlock(e.sc, "B", "A", 2, map[string]string{"x": "b1"}, nil)
	*e.committed["A"], *e.committed["B"] = 1, 1
	if full {
		// fill k1's version map to exactly its capacity (200) with versions of unrelated sibling forks of B, then make
		// A's entry the most recently used one, so that the few entries added during a schedule evict only those forks
		for i := 1; i <= 199; i++ {
			c08commitBlock(e.sc, fmt.Sprintf("X%d", i), "A", 2, map[string]string{"k1": fmt.Sprintf("x%d", i)}, nil)
		}
		e.sc.Get("k1", "A")
	}
	var tc *statecache.TransactionCache
	e.bcC, tc = statecache.NewBlockTxnCaches(e.sc, statecache.Block{Round: 3, Hash: "C", PrevHash: "B"})
	tc.Set("k1", statecache.String("c1"))
	tc.Set("k2", statecache.String("c2"))
	tc.Remove("k3")
	tc.Commit()
	e.bcD, e.tcD = statecache.NewBlockTxnCaches(e.sc, statecache.Block{Round: 4, Hash: "D", PrevHash: "C"})
	e.tcD.Set("k4", statecache.String("d4"))
	e.bcD2, e.tcD2 = statecache.NewBlockTxnCaches(e.sc, statecache.Block{Round: 4, Hash: "D2", PrevHash: "C"})
	e.tcD2.Set("k4", statecache.String("d4"))
	var tcE *statecache.TransactionCache
	e.bcE, tcE = statecache.NewBlockTxnCaches(e.sc, statecache.Block{Round: 4, Hash: "E", PrevHash: "C"})
	tcE.Set("k1", statecache.String("e1"))
	tcE.Commit()
	// D2 is committed before its parent B2 (out of order); B2 is prepared for a scenario to commit
	c08commitBlock(e.sc, "D2", "B2", 3, nil, nil)
	*e.committed["D2"] = 1
	var tcB2 *statecache.TransactionCache
	e.bcB2, tcB2 = statecache.NewBlockTxnCaches(e.sc, statecache.Block{Round: 2, Hash: "B2", PrevHash: "A"})
	tcB2.Set("k1", statecache.String("b21"))
	tcB2.Set("k5", statecache.String("b25"))
	tcB2.Commit()
	var tcF *statecache.TransactionCache
	e.bcF, tcF = statecache.NewBlockTxnCaches(e.sc, statecache.Block{Round: 3, Hash: "F", PrevHash: "B"})
	tcF.Set("k1", statecache.String("f1"))
	tcF.Set("k2", statecache.String("f2"))
	tcF.Set("k6", statecache.String("f6"))
	tcF.Commit()
	return e
}

func (e *c08env) rec(who, key, ctx string, v statecache.Value, ok bool, after bool) {
	s := ""
	if ok {
		s = string(v.(statecache.String))
	}
	e.mu.Lock()
	e.reads = append(e.reads, c08read{who, key, ctx, s, ok, after})
	e.mu.Unlock()
}

// gate names the block whose commit completes the chain of a lookup context
func c08gate(blk string) string {
	if blk == "D2" {
		return "B2"
	}
	return blk
}

func (e *c08env) commitB2() {
	e.bcB2.Commit()
	atomic.StoreInt32(e.committed["B2"], 1)
}

func (e *c08env) commitF() {
	e.bcF.Commit()
	atomic.StoreInt32(e.committed["F"], 1)
}

func (e *c08env) readState(who, key, blk string) {
	after := atomic.LoadInt32(e.committed[c08gate(blk)]) == 1
	v, ok := e.sc.Get(key, blk)
	e.rec(who, key, blk, v, ok, after)
}

func (e *c08env) readQuery(who, key, blk string) {
	after := atomic.LoadInt32(e.committed[c08gate(blk)]) == 1
	v, ok := statecache.NewQueryBlockCache(e.sc, blk).Get(key)
	e.rec(who, key, blk, v, ok, after)
}

// reads in the context of D (open child of C) go through D's block / transaction cache, never through C's
// (two open children D and D2 exist so that two parked readers never share a real mutex)
func (e *c08env) readD(who, key string, viaTxn bool) {
	after := atomic.LoadInt32(e.committed["C"]) == 1
	var v statecache.Value
	var ok bool
	bc, tc := e.bcD, e.tcD
	if who != "r1" {
		bc, tc = e.bcD2, e.tcD2
	}
	if viaTxn {
		v, ok = tc.Get(key)
	} else {
		v, ok = bc.Get(key)
	}
	e.rec(who, key, "D", v, ok, after)
}

func (e *c08env) commitC() {
	e.bcC.Commit()
	atomic.StoreInt32(e.committed["C"], 1)
	if e.useE {
		e.bcE.Commit()
		atomic.StoreInt32(e.committed["E"], 1)
	}
}

// judge returns "" or the first contradiction.
func (e *c08env) judge() string {
	for _, r := range e.reads {
		want, has := c08truth[r.ctx][r.key]
		if r.ok {
			if !has {
				return fmt.Sprintf("%s: lookup %s@%s hit %q, but the block tree has no value there (removed or never written)", r.who, r.key, r.ctx, r.got)
			}
			if r.got != want {
				return fmt.Sprintf("%s: lookup %s@%s hit %q, the block tree determines %q", r.who, r.key, r.ctx, r.got, want)
			}
			continue
		}
		if !has {
			continue
		}
		// must-hit rules: (1) own pre-commit entry of D; (2) chains that were fully committed before the concurrent phase
		// (contexts A and B); (3) post-commit visibility: the call started after Commit of the context block returned
		if r.ctx == "D" && r.key == "k4" {
			return fmt.Sprintf("%s: lookup of D's own uncommitted write k4 missed", r.who)
		}
		if r.ctx == "A" || r.ctx == "B" {
			return fmt.Sprintf("%s: lookup %s@%s missed although its whole chain was committed before any concurrency (value %q)", r.who, r.key, r.ctx, want)
		}
		if r.afterCommit {
			return fmt.Sprintf("%s: lookup %s@%s missed although it started after the commit of %s had returned (value %q)", r.who, r.key, r.ctx, c08gate(r.ctx), want)
		}
	}
	return ""
}

func (e *c08env) sweep() string {
	var blocks []string
	for _, b := range []string{"A", "B", "C", "E", "B2", "D2", "F"} {
		if atomic.LoadInt32(e.committed[b]) == 1 && (b != "D2" || atomic.LoadInt32(e.committed["B2"]) == 1) {
			blocks = append(blocks, b)
		}
	}
	for _, b := range blocks {
		for _, k := range c08keys {
			v, ok := e.sc.Get(k, b)
			want, has := c08truth[b][k]
			if ok && (!has || string(v.(statecache.String)) != want) {
				return fmt.Sprintf("quiescent sweep: %s@%s = %q, the block tree determines %q (present=%v)", k, b, string(v.(statecache.String)), want, has)
			}
			if !ok && has {
				return fmt.Sprintf("quiescent sweep: %s@%s misses after all commits returned, the block tree determines %q", k, b, want)
			}
		}
	}
	return ""
}

type c08scenario struct {
	name  string
	useE  bool
	full  bool // k1's version map is filled to its capacity before the schedule
	parts func(e *c08env) (names []string, fns []func())
}

var c08scenarios = []c08scenario{
	{"commitC | k1@B | k1@C", false, false, func(e *c08env) ([]string, []func()) {
		return []string{"commit", "r1", "r2"}, []func(){e.commitC, func() { e.readState("r1", "k1", "B") }, func() { e.readState("r2", "k1", "C") }}
	}},
	{"commitC | k3@C,k2@C | k3@B", false, false, func(e *c08env) ([]string, []func()) {
		return []string{"commit", "r1", "r2"}, []func(){e.commitC, func() { e.readState("r1", "k3", "C"); e.readState("r1", "k2", "C") }, func() { e.readState("r2", "k3", "B") }}
	}},
	{"commitC | D.block k1 | D.txn k2,k4", false, false, func(e *c08env) ([]string, []func()) {
		return []string{"commit", "r1", "r2"}, []func(){e.commitC, func() { e.readD("r1", "k1", false) }, func() { e.readD("r2", "k2", true); e.readD("r2", "k4", true) }}
	}},
	{"commitC | k1@C | k1@C", false, false, func(e *c08env) ([]string, []func()) {
		return []string{"commit", "r1", "r2"}, []func(){e.commitC, func() { e.readState("r1", "k1", "C") }, func() { e.readQuery("r2", "k1", "C") }}
	}},
	{"commitC | k1@A,k1@C | k3@B,x@C", false, false, func(e *c08env) ([]string, []func()) {
		return []string{"commit", "r1", "r2"}, []func(){e.commitC, func() { e.readState("r1", "k1", "A"); e.readState("r1", "k1", "C") }, func() { e.readState("r2", "k3", "B"); e.readState("r2", "x", "C") }}
	}},
	{"commitC | k1@B,k1@C | k1@C,k1@C", false, false, func(e *c08env) ([]string, []func()) {
		return []string{"commit", "r1", "r2"}, []func(){e.commitC, func() { e.readState("r1", "k1", "B"); e.readState("r1", "k1", "C") }, func() { e.readState("r2", "k1", "C"); e.readState("r2", "k1", "C") }}
	}},
	{"commitC;commitE | k1@E | k1@C,k2@E", true, false, func(e *c08env) ([]string, []func()) {
		return []string{"commit", "r1", "r2"}, []func(){e.commitC, func() { e.readState("r1", "k1", "E") }, func() { e.readState("r2", "k1", "C"); e.readState("r2", "k2", "E") }}
	}},
	{"out of order: D2 committed before its parent; commitB2 | k1@D2 | k1@D2,k1@B2", false, false, func(e *c08env) ([]string, []func()) {
		e.extra = []string{"B2", "D2"}
		return []string{"commit", "r1", "r2"}, []func(){e.commitB2, func() { e.readState("r1", "k1", "D2") }, func() { e.readQuery("r2", "k1", "D2"); e.readState("r2", "k1", "B2") }}
	}},
	{"out of order: commitB2 | k5@D2,k1@D2 | k3@D2", false, false, func(e *c08env) ([]string, []func()) {
		e.extra = []string{"B2", "D2"}
		return []string{"commit", "r1", "r2"}, []func(){e.commitB2, func() { e.readState("r1", "k5", "D2"); e.readState("r1", "k1", "D2") }, func() { e.readState("r2", "k3", "D2") }}
	}},
	{"two committers: commitC | commitF | k2@C,k6@F", false, false, func(e *c08env) ([]string, []func()) {
		e.extra = []string{"F"}
		return []string{"commit", "commitF", "r1"}, []func(){e.commitC, e.commitF, func() { e.readState("r1", "k2", "C"); e.readState("r1", "k6", "F") }}
	}},
	{"two committers: commitF | commitC | k2@F | k2@C", false, false, func(e *c08env) ([]string, []func()) {
		e.extra = []string{"F"}
		return []string{"commit", "commitC", "r1", "r2"}, []func(){e.commitF, e.commitC, func() { e.readState("r1", "k2", "F") }, func() { e.readState("r2", "k2", "C") }}
	}},
	{name: "k1's version map at capacity: commitC | k1@B | k1@C", full: true, parts: func(e *c08env) ([]string, []func()) {
		return []string{"commit", "r1", "r2"}, []func(){e.commitC, func() { e.readState("r1", "k1", "B") }, func() { e.readState("r2", "k1", "C") }}
	}},
	{name: "k1's version map at capacity: commitC | k1@C | k1@C,k2@C", full: true, parts: func(e *c08env) ([]string, []func()) {
		return []string{"commit", "r1", "r2"}, []func(){e.commitC, func() { e.readState("r1", "k1", "C") }, func() { e.readQuery("r2", "k1", "C"); e.readState("r2", "k2", "C") }}
	}},
	{"commitC | k1@C | k2@C | D.block k3", false, false, func(e *c08env) ([]string, []func()) {
		return []string{"commit", "r1", "r2", "r3"}, []func(){e.commitC, func() { e.readState("r1", "k1", "C") }, func() { e.readState("r2", "k2", "C") }, func() { e.readD("r3", "k3", false) }}
	}},
}

type c08preempt struct{ step, to int }

// runSchedule executes one scenario under a chooser; returns the trace, the environment and an error if stuck.
func c08run(sn c08scenario, choose func(live []int, last, step int) int) ([]sched.Step, *c08env, []string, error) {
	c08setHook(nil)
	e := newC08env(sn.useE, sn.full)
	s := sched.New()
	names, fns := sn.parts(e)
	parts := make([]*sched.Part, len(fns))
	for i := range fns {
		parts[i] = s.Spawn(names[i], fns[i])
	}
	c08setHook(s.Yield)
	tr, err := sched.Run(parts, choose)
	c08setHook(nil)
	if err != nil {
		sched.Abort(parts)
	}
	return tr, e, names, err
}

func planChooser(plan []c08preempt) func(live []int, last, step int) int {
	return func(live []int, last, step int) int {
		for _, p := range plan {
			if p.step == step {
				for _, l := range live {
					if l == p.to {
						return l
					}
				}
			}
		}
		for _, l := range live {
			if l == last {
				return l
			}
		}
		return live[0]
	}
}

func fmtTrace(tr []sched.Step, names []string) string {
	var sb strings.Builder
	for i, st := range tr {
		if i > 0 {
			sb.WriteByte(' ')
		}
		pt := st.Point
		if pt == "" {
			pt = "done"
		}
		fmt.Fprintf(&sb, "%s:%s", names[st.Who], pt)
	}
	return sb.String()
}

func c08observe(c *fw.Ctx, sn c08scenario, tr []sched.Step, e *c08env, names []string, err error, how string) {
	ts := fmtTrace(tr, names)
	if err != nil {
		c.Count("inconclusive:scheduler stuck (a participant blocked outside the hook) in scenario "+sn.name, 1)
		return
	}
	c.Count("schedules", 1)
	c.Count("schedules:"+how, 1)
	yields := 0
	for i, st := range tr {
		if st.Point != "" {
			yields++
		}
		if i > 0 && tr[i-1].Who != st.Who && tr[i-1].Point != "" && st.Point != "" {
			a, b := tr[i-1], st
			if (a.Who == 0) != (b.Who == 0) { // committer/reader adjacency
				c.Distinct("adjacent_point_pairs", fw.Hash64(a.Who == 0, a.Point, b.Point))
			}
		}
	}
	c.Count("yields_observed", int64(yields))
	c.Distinct("nontrivial", fw.Hash64(sn.name, ts))
	if f := e.judge(); f != "" {
		c.Violate("", "scenario [%s], schedule (%s): %s\nschedule: %s\nreads: %+v", sn.name, how, f, ts, e.reads)
		return
	}
	if f := e.sweep(); f != "" {
		c.Violate("", "scenario [%s], schedule (%s): %s\nschedule: %s\nreads during the schedule: %+v", sn.name, how, f, ts, e.reads)
	}
}

func c08dfs(c *fw.Ctx, sn c08scenario, maxPreempt, cap int) {
	type item struct{ plan []c08preempt }
	queue := []item{{nil}}
	n := 0
	for len(queue) > 0 && n < cap && !c.Violated() {
		it := queue[0]
		queue = queue[1:]
		tr, e, names, err := c08run(sn, planChooser(it.plan))
		n++
		c08observe(c, sn, tr, e, names, err, fmt.Sprintf("enumerated, %d preemptions", len(it.plan)))
		if err != nil {
			return
		}
		if len(it.plan) >= maxPreempt {
			continue
		}
		from := 0
		if len(it.plan) > 0 {
			from = it.plan[len(it.plan)-1].step + 1
		}
		finished := map[int]bool{}
		for t := 0; t < len(tr); t++ {
			if t >= from {
				for w := 0; w < len(names); w++ {
					if !finished[w] && w != tr[t].Who {
						np := append(append([]c08preempt(nil), it.plan...), c08preempt{t, w})
						queue = append(queue, item{np})
					}
				}
			}
			if tr[t].Point == "" {
				finished[tr[t].Who] = true
			}
		}
	}
	c.Count("enumeration_frontier_left", int64(len(queue)))
	if len(queue) == 0 {
		c.Count("scenarios_enumerated_completely_to_bound", 1)
	}
}

func c08random(c *fw.Ctx, sn c08scenario, n int, pct bool) {
	r := c.Rng
	stuck := false
	for i := 0; i < n && !c.Violated() && !stuck; i++ {
		var choose func(live []int, last, step int) int
		how := "uniform random"
		if pct {
			how = "PCT priorities"
			nparts := 4
			prio := r.Perm(nparts + 3)
			changes := map[int]bool{}
			for k := 0; k < 1+r.Intn(3); k++ {
				changes[r.Intn(30)] = true
			}
			low := -1
			choose = func(live []int, last, step int) int {
				if changes[step] && last >= 0 {
					prio[last] = low
					low--
				}
				best := live[0]
				for _, l := range live {
					if prio[l] > prio[best] {
						best = l
					}
				}
				return best
			}
		} else {
			choose = func(live []int, last, step int) int { return live[r.Intn(len(live))] }
		}
		tr, e, names, err := c08run(sn, choose)
		c08observe(c, sn, tr, e, names, err, how)
		stuck = err != nil
	}
}

// ---- mode B: free running ----

func c08free(c *fw.Ctx) {
	r := c.Rng
	c08setHook(nil)
	procs := []int{1, 2, 4, 16}[r.Intn(4)]
	old := runtime.GOMAXPROCS(procs)
	defer runtime.GOMAXPROCS(old)
	sc := statecache.NewStateCache()
	nforks := 2 + r.Intn(5)
	nreaders := 4 + r.Intn(7)
	depth := 4 + r.Intn(9)
	nkeys := 3 + r.Intn(4)
	keys := make([]string, nkeys)
	for i := range keys {
		keys[i] = fmt.Sprintf("k%d", i)
	}
	// predetermined tree: genesis G, then fork f: f.1 <- f.2 <- ... each block writes/removes some keys
	type blk struct {
		hash, prev string
		set        map[string]string
		rm         []string
		done       int32
	}
	blocks := map[string]*blk{}
	g := &blk{hash: "G", set: map[string]string{}}
	fresh := map[string]bool{}
	for i, k := range keys {
		if i >= nkeys-2 && nkeys > 3 { // the last two keys are brand-new: first written by the forks' first blocks, concurrently
			fresh[k] = true
			continue
		}
		g.set[k] = "G/" + k
	}
	blocks["G"] = g
	c08commitBlock(sc, "G", "", 0, g.set, nil)
	g.done = 1
	forks := make([][]*blk, nforks)
	for f := 0; f < nforks; f++ {
		prev := "G"
		for d := 1; d <= depth; d++ {
			b := &blk{hash: fmt.Sprintf("f%d.%d", f, d), prev: prev, set: map[string]string{}}
			for _, k := range keys {
				if fresh[k] && d == 1 {
					b.set[k] = b.hash + "/" + k
					continue
				}
				switch r.Intn(5) {
				case 0, 1:
					b.set[k] = b.hash + "/" + k
				case 2:
					if r.Intn(2) == 0 {
						b.rm = append(b.rm, k)
					}
				}
			}
			blocks[b.hash] = b
			forks[f] = append(forks[f], b)
			prev = b.hash
		}
	}
	truth := func(key, h string) (string, bool) {
		for cur := h; cur != ""; cur = blocks[cur].prev {
			b := blocks[cur]
			if v, ok := b.set[key]; ok {
				return v, true
			}
			for _, k := range b.rm {
				if k == key {
					return "", false
				}
			}
		}
		return "", false
	}
	// chainDone: every block from h up to (and including) the block that decides key has finished its commit
	chainDone := func(key, h string) bool {
		for cur := h; cur != ""; cur = blocks[cur].prev {
			b := blocks[cur]
			if atomic.LoadInt32(&b.done) != 1 {
				return false
			}
			if _, ok := b.set[key]; ok {
				return true
			}
			for _, k := range b.rm {
				if k == key {
					return true
				}
			}
		}
		return true
	}
	// a third of the forks commit their blocks out of order (children before parents)
	order := make([][]int, nforks)
	outOfOrder := 0
	for f := range order {
		order[f] = r.Perm(depth)
		if r.Intn(3) != 0 {
			for i := range order[f] {
				order[f][i] = i
			}
		} else {
			outOfOrder++
		}
	}
	// schedule perturbation through the hook
	var pert uint32
	c08setHook(func(string) {
		x := atomic.AddUint32(&pert, 2654435761)
		switch {
		case x%5 == 0:
			runtime.Gosched()
		case x%97 == 0:
			time.Sleep(time.Microsecond * time.Duration(x%50))
		}
	})
	defer c08setHook(nil)
	type rd struct {
		key, blk string
		got      string
		ok       bool
		after    bool
	}
	var mu sync.Mutex
	var reads []rd
	var wg sync.WaitGroup
	start := make(chan struct{})
	var overlapping int64
	var inCommit int32
	var txnReads, lateTxns, oldViews int64
	var txnBad atomic.Value
	watch := map[string]bool{} // blocks whose transaction cache is read by a watcher during the commits
	for f := range forks {
		for _, b := range forks[f] {
			if r.Intn(3) == 0 {
				watch[b.hash] = true
			}
		}
	}
	for f := 0; f < nforks; f++ {
		wg.Add(1)
		go func(f int) {
			defer wg.Done()
			<-start
			for _, bi := range order[f] {
				b := forks[f][bi]
				bc, tc := statecache.NewBlockTxnCaches(sc, statecache.Block{Hash: b.hash, PrevHash: b.prev})
				for k, v := range b.set {
					tc.Set(k, statecache.String(v))
				}
				for _, k := range b.rm {
					tc.Remove(k)
				}
				// a watcher reads through this transaction's own cache while the transaction and then the block commit:
				// own writes first, so a hit must be what the block tree determines at b whatever the timing
				stop := make(chan struct{})
				var wwg sync.WaitGroup
				if watch[b.hash] {
					wwg.Add(1)
					go func() {
						defer wwg.Done()
						for n := 0; ; n++ {
							select {
							case <-stop:
								return
							default:
							}
							k := keys[n%len(keys)]
							v, ok := tc.Get(k)
							atomic.AddInt64(&txnReads, 1)
							if ok {
								want, has := truth(k, b.hash)
								if got := string(v.(statecache.String)); !has || got != want {
									txnBad.Store(fmt.Sprintf("lookup %s through the transaction cache of %s while it commits: hit %q, the block tree determines %q (present=%v)", k, b.hash, got, want, has))
								}
							}
							if n%16 == 0 {
								runtime.Gosched()
							}
						}
					}()
				}
				tc.Commit()
				// a second transaction of the block writes a key nobody else uses and commits into the block cache while the
				// block itself is being committed: whichever comes first, once both calls have returned the block cache
				// object answers with that transaction's value
				lateDone := make(chan struct{})
				if watch[b.hash] {
					go func() {
						defer close(lateDone)
						tc2 := statecache.NewTransactionCache(bc)
						tc2.Set("late/"+b.hash, statecache.String("txn2/"+b.hash))
						tc2.Commit()
					}()
				} else {
					close(lateDone)
				}
				atomic.AddInt32(&inCommit, 1)
				bc.Commit()
				atomic.AddInt32(&inCommit, -1)
				atomic.StoreInt32(&b.done, 1)
				<-lateDone
				if watch[b.hash] {
					if v, ok := bc.Get("late/" + b.hash); !ok || string(v.(statecache.String)) != "txn2/"+b.hash {
						txnBad.Store(fmt.Sprintf("a transaction of %s committed into the block cache while the block was being committed; afterwards the block cache answers %v, %v for its key", b.hash, v, ok))
					}
					atomic.AddInt64(&lateTxns, 1)
				}
				close(stop)
				wwg.Wait()
			}
		}(f)
	}
	seeds := make([]int64, nreaders)
	for i := range seeds {
		seeds[i] = r.Int63()
	}
	all := make([]string, 0, len(blocks))
	for h := range blocks {
		all = append(all, h)
	}
	sort.Strings(all)
	for i := 0; i < nreaders; i++ {
		wg.Add(1)
		go func(i int) {
			defer wg.Done()
			rr := rand.New(rand.NewSource(seeds[i]))
			<-start
			var local []rd
			views := map[string]*statecache.QueryBlockCache{}
			for n := 0; n < 40+rr.Intn(60); n++ {
				b := blocks[all[rr.Intn(len(all))]]
				k := keys[rr.Intn(len(keys))]
				after := chainDone(k, b.hash)
				if atomic.LoadInt32(&inCommit) > 0 {
					atomic.AddInt64(&overlapping, 1)
				}
				if n%16 == 5 {
					_, _ = sc.Stats() // the counters are read by monitoring code while blocks commit
				}
				var v statecache.Value
				var ok bool
				if rr.Intn(4) == 0 {
					// half of these go through a view this reader opened earlier (maybe before the block was committed)
					qv := views[b.hash]
					if qv == nil || rr.Intn(2) == 0 {
						qv = statecache.NewQueryBlockCache(sc, b.hash)
						views[b.hash] = qv
					} else {
						atomic.AddInt64(&oldViews, 1)
					}
					v, ok = qv.Get(k)
				} else {
					v, ok = sc.Get(k, b.hash)
				}
				s := ""
				if ok {
					s = string(v.(statecache.String))
				}
				local = append(local, rd{k, b.hash, s, ok, after})
			}
			mu.Lock()
			reads = append(reads, local...)
			mu.Unlock()
		}(i)
	}
	close(start)
	done := make(chan struct{})
	go func() { wg.Wait(); close(done) }()
	select {
	case <-done:
	case <-time.After(120 * time.Second):
		c.Count("inconclusive:free run did not finish within its watchdog", 1)
		return
	}
	c08setHook(nil)
	desc := fmt.Sprintf("free run: %d forks x %d blocks, %d readers, %d keys, GOMAXPROCS=%d", nforks, depth, nreaders, nkeys, procs)
	if b := txnBad.Load(); b != nil {
		c.Violate("", "%s: %s", desc, b.(string))
		return
	}
	c.Count("free_lookups_through_a_committing_transaction_cache", atomic.LoadInt64(&txnReads))
	c.Count("free_transactions_committed_during_their_block_commit", atomic.LoadInt64(&lateTxns))
	c.Count("free_lookups_through_a_view_opened_earlier", atomic.LoadInt64(&oldViews))
	for _, x := range reads {
		want, has := truth(x.key, x.blk)
		c.Count("free_lookups", 1)
		if x.ok {
			c.Count("free_hits", 1)
			if !has || x.got != want {
				c.Violate("", "%s: concurrent lookup %s@%s hit %q, the block tree determines %q (present=%v)", desc, x.key, x.blk, x.got, want, has)
				return
			}
		} else if has && x.after {
			// post-commit visibility: needs the whole chain committed, which holds because forks commit in order
			c.Violate("", "%s: lookup %s@%s missed although it started after Commit(%s) had returned (value %q)", desc, x.key, x.blk, x.blk, want)
			return
		}
	}
	// quiescent sweep
	for _, h := range all {
		for _, k := range keys {
			v, ok := sc.Get(k, h)
			want, has := truth(k, h)
			if ok && (!has || string(v.(statecache.String)) != want) {
				c.Violate("", "%s: quiescent sweep %s@%s = %q, the block tree determines %q (present=%v)", desc, k, h, string(v.(statecache.String)), want, has)
				return
			}
			if !ok && has {
				c.Violate("", "%s: quiescent sweep %s@%s misses after all commits returned (value %q)", desc, k, h, want)
				return
			}
		}
	}
	c.Count("free_runs", 1)
	c.Count("free_forks_committed_out_of_order", int64(outOfOrder))
	c.Count("free_lookups_overlapping_a_commit", overlapping)
	c.Distinct("nontrivial", fw.Hash64("free", c.Idx, len(reads), overlapping))
	if c.Idx%10 == 0 {
		c.Sample(map[string]any{"free_run": desc, "lookups": len(reads), "lookups_started_while_a_commit_was_running": overlapping})
	}
}

func c08layout(tier string) (nscen, chunks, per, free int, dfsCap, dfsBound int) {
	nscen = len(c08scenarios)
	if tier == "thorough" {
		return nscen, 60, 2000, 1500, 400000, 4
	}
	return nscen, 6, 600, 120, 30000, 3
}

func runC08(c *fw.Ctx) {
	nscen, chunks, per, _, dfsCap, dfsBound := c08layout(c.Tier)
	idx := c.Idx
	switch {
	case idx < nscen:
		sn := c08scenarios[idx]
		c.Describe(map[string]any{"mode": "A: enumeration with preemption bound", "scenario": sn.name, "bound": dfsBound, "cap": dfsCap})
		if strings.HasPrefix(sn.name, "two committers") && c.Quick() {
			dfsBound = 2 // every preemption of the second committer costs a lock-wait detection; thorough keeps the full bound
		}
		c08dfs(c, sn, dfsBound, dfsCap)
		if idx == 0 {
			tr, _, names, _ := c08run(sn, planChooser([]c08preempt{{3, 2}, {9, 1}}))
			c.Sample(map[string]any{"scenario": sn.name, "one_schedule": fmtTrace(tr, names)})
		}
	case idx < nscen+nscen*chunks*2:
		k := idx - nscen
		sn := c08scenarios[k%nscen]
		pct := (k/nscen)%2 == 1
		c.Describe(map[string]any{"mode": "A: sampled schedules", "scenario": sn.name, "pct": pct, "schedules": per})
		c08random(c, sn, per, pct)
	default:
		c.Describe(map[string]any{"mode": "B: free running"})
		c08free(c)
	}
}

func init() {
	fw.Register(&fw.Prop{
		ID:           "C08",
		EvalCounters: []string{"schedules", "free_runs"},
		Level:        "exploration",
		Race:         true,
		Rule: "Mode A (controlled schedules through the verif yield hook, one yield before every shared-map access of StateCache.Get/commit): 14 small scenarios (ancestors A<-B committed; C, child of B, writing k1,k2 and removing k3, being committed by one participant, in one scenario followed by its child E; two scenarios commit a parent AFTER its already committed child; two scenarios start with k1's per-key version map filled to exactly its 200-entry capacity; two scenarios run a second committer for a sibling block writing a brand-new key (the scheduler sets a participant aside while it is blocked on a real lock); " +
			"2-3 reader participants issuing 1-2 lookups at A, B, C, E and through the block/transaction cache of an open child D). Schedules: breadth-first enumeration of all schedules with at most 3 (quick) / 4 (thorough) preemptions up to a cap, uniform random schedules, PCT-style priority schedules. " +
			"Oracle: every hit equals the value the block tree determines; lookups at contexts committed before the run, of own uncommitted entries, and lookups started after Commit returned must hit; a quiescent sweep re-reads every (key, block). " +
			"Mode B: 2-6 committers each extending its own fork, 4-10 readers, GOMAXPROCS in {1,2,4,16}, the hook injects Gosched/µs sleeps; for a third of the blocks a watcher goroutine reads every key through the block's transaction cache while the transaction and then the block commit (a hit must be what the block tree determines at that block); same oracle on the recorded results plus post-commit visibility; the whole check runs in the -race binary and every distinct race report is a violation. " +
			"distinct non-trivial = distinct (scenario, schedule trace) pairs plus free runs",
		Cases: func(tier string) int {
			n, ch, _, free, _, _ := c08layout(tier)
			return n + n*ch*2 + free
		},
		Run: runC08,
		Floors: map[string]int64{"free_lookups_through_a_committing_transaction_cache": 10000, "free_transactions_committed_during_their_block_commit": 800, "schedules": 80000, "yields_observed": 1500000, "distinct:adjacent_point_pairs": 35, "free_runs": 100, "free_lookups": 30000, "free_lookups_overlapping_a_commit": 2000,
			"schedules:uniform random": 25000, "schedules:PCT priorities": 25000, "scenarios_enumerated_completely_to_bound": 1},
		Assumptions: []string{
			"mode A: exactly one committer is active at a time and readers never use the BlockCache object that is being committed (its mutex is held for the whole commit): the cooperative scheduler would otherwise block on real mutexes",
			"schedule granularity = the yield points of the verif hook (before each shared-map access); if the hook points disappear the run observes no yields and is inconclusive",
			"race freedom = no report from the Go race detector on the interleavings that occurred",
		},
	})
}
