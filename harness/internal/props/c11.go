package props

import (
	"bytes"
	"fmt"
	"strings"

	"github.com/0chain/common/core/util/storage"
	"github.com/0chain/common/core/util/wmpt"

	"verif/harness/internal/fw"
	wl "verif/harness/internal/wmlab"
)

// C11 — a committed weighted trie is recoverable from (root hash, weight); garbage collection keeps live nodes;
// a crash between any two storage operations leaves the last durably committed root fully resolvable.

type c11committed struct {
	root  []byte
	w     uint64
	model wl.Model
}

// resolvable checks that the trie reopened from (root, weight) on a copy of the store is observationally identical
// to the model, and returns the canonical node hashes that are absent from the store.
func c11resolvable(cm c11committed, snap *wl.Mem) (string, [][]byte) {
	if cm.w == 0 {
		return "", nil
	}
	var missing [][]byte
	cm.model.RefCollect(func(kind string, h []byte) {
		if _, ok := snap.M[string(h)]; !ok {
			missing = append(missing, append([]byte(nil), h...))
		}
	})
	t := wl.Reopen(cm.root, cm.w, snap)
	f := wl.CheckFull(t, cm.model, true)
	if f == "" && len(missing) > 0 {
		// every node of the committed state must be stored under its hash, even if no proof happened to need it
		f = fmt.Sprintf("%d node(s) of the committed state are absent from storage (first %x)", len(missing), missing[0])
	}
	return f, missing
}

func runC11(c *fw.Ctx) {
	r := c.Rng
	class := "ADBC"[c.Idx%4]
	onPebble := class == 'A' && c.Idx%200 == 4
	g := &wl.Gen{R: r, Shared: class == 'B'}
	st := wl.NewMem()
	var pendingSnaps []*wl.Mem
	st.OnOp = func(op wl.StoreOp) { pendingSnaps = append(pendingSnaps, st.Clone()) }
	var db storage.StorageAdapter = st
	var pebbleCleanup func()
	if onPebble {
		db, pebbleCleanup = openPebble(c)
		defer pebbleCleanup()
	}
	t := wmpt.New(nil, db)
	m := wl.Model{}
	last := c11committed{model: wl.Model{}}
	grave := map[string]wl.Entry{} // content deleted earlier, for re-adding identical content
	dirty := false
	gcSinceMutation := 0 // GC passes since the last mutation without a commit in between
	rootReadWhileDirty := false
	_ = rootReadWhileDirty
	sharedAtSupersession := map[string]bool{} // class B: hashes referenced by >=2 positions when one of them was superseded
	maxSteps := 30
	if !c.Quick() {
		maxSteps = 70
	}
	nsteps := 10 + r.Intn(maxSteps-9)
	c.Tracef("class=%c", class)
	fail := func(sig, format string, a ...any) {
		c.Violate(sig, "%s [scenario class %c]\ntrace: %s", fmt.Sprintf(format, a...), class, strings.Join(c.Trace(), "; "))
	}
	noteShared := func() {
		if class != 'B' {
			return
		}
		for h, n := range m.NodeHashes() {
			if n >= 2 {
				sharedAtSupersession[h] = true
			}
		}
	}
	// judge the snapshots taken after each storage operation of the step that just ended
	judge := func(what string, prev c11committed, isCommit bool) bool {
		snaps := pendingSnaps
		pendingSnaps = nil
		if onPebble {
			return true
		}
		for i, s := range snaps {
			target := last
			if isCommit && i < len(snaps)-1 {
				target = prev // the commit's own batches are not complete yet: the previous root is the durable one
			}
			c.Count("crash_points", 1)
			f, missing := c11resolvable(target, s)
			if f == "" {
				continue
			}
			sig := ""
			if class == 'B' && what == "gc" && len(missing) > 0 {
				allShared := true
				for _, h := range missing {
					if !sharedAtSupersession[string(h)] {
						allShared = false
					}
				}
				if allShared {
					sig = "gc-shared-content"
				}
			}
			fail(sig, "after storage operation %d of step %q the last durably committed root %x (weight %d) is not recoverable from storage: %s", i+1, what, target.root, target.w, f)
			return false
		}
		return true
	}
	for step := 0; step < nsteps; step++ {
		keys := m.Keys()
		x := r.Intn(100)
		switch {
		case x < 30 || len(keys) == 0:
			k := g.Key(keys)
			v, w := g.Value()
			c.Tracef("upd %s=%s", wl.KeyStr(k), v)
			noteShared()
			if err := wl.Upd(t, k, v, w); err != nil {
				fail("", "Update failed: %v", err)
				return
			}
			m[string(k)] = wl.Entry{Val: v, W: w}
			dirty, gcSinceMutation = true, 0
		case x < 40:
			k := []byte(keys[r.Intn(len(keys))])
			v, w := g.Value()
			c.Tracef("overwrite %s=%s", wl.KeyStr(k), v)
			noteShared()
			grave[string(k)] = m[string(k)]
			if err := wl.Upd(t, k, v, w); err != nil {
				fail("", "Update failed: %v", err)
				return
			}
			if !bytes.Equal(m[string(k)].Val, v) {
				dirty, gcSinceMutation = true, 0
			}
			m[string(k)] = wl.Entry{Val: v, W: w}
		case x < 52:
			k := []byte(keys[r.Intn(len(keys))])
			c.Tracef("del %s", wl.KeyStr(k))
			noteShared()
			grave[string(k)] = m[string(k)]
			if err := wl.Upd(t, k, nil, 0); err != nil {
				fail("", "delete failed: %v", err)
				return
			}
			delete(m, string(k))
			dirty, gcSinceMutation = true, 0
		case x < 62 && len(grave) > 0: // re-add identical content / overwrite back to the old value
			var gk []string
			for k := range grave {
				gk = append(gk, k)
			}
			sortStrings(gk)
			k := gk[r.Intn(len(gk))]
			e := grave[k]
			c.Tracef("re-add %s=%s (identical to earlier content)", wl.KeyStr([]byte(k)), e.Val)
			noteShared()
			if err := wl.Upd(t, []byte(k), e.Val, e.W); err != nil {
				fail("", "Update failed: %v", err)
				return
			}
			if cur, ok := m[k]; !ok || !bytes.Equal(cur.Val, e.Val) {
				dirty, gcSinceMutation = true, 0
			}
			m[k] = e
			c.Count("readd_identical", 1)
		case x < 66 && len(keys) > 0: // delete and immediately re-add the same content
			k := keys[r.Intn(len(keys))]
			e := m[k]
			c.Tracef("del+re-add %s", wl.KeyStr([]byte(k)))
			noteShared()
			if err := wl.Upd(t, []byte(k), nil, 0); err != nil {
				fail("", "delete failed: %v", err)
				return
			}
			if err := wl.Upd(t, []byte(k), e.Val, e.W); err != nil {
				fail("", "Update failed: %v", err)
				return
			}
			dirty, gcSinceMutation = true, 0
			c.Count("del_readd_same_window", 1)
		case x < 82:
			lvl := r.Intn(6)
			c.Tracef("commit(%d)", lvl)
			prev := last
			b, err := t.Commit(lvl)
			if err != nil {
				fail("", "Commit failed: %v", err)
				return
			}
			if err := b.Commit(true); err != nil {
				fail("", "batch commit failed: %v", err)
				return
			}
			wr, ww := m.Ref()
			last = c11committed{root: wr, w: ww, model: m.Copy()}
			wasDirty := dirty
			dirty, gcSinceMutation = false, 0
			c.Count("commits", 1)
			if onPebble {
				// close / re-open between commit and reload
				if f := wl.CheckFull(wl.Reopen(wr, ww, db), m, true); f != "" {
					fail("", "pebble: trie reopened after commit: %s", f)
					return
				}
				c.Count("pebble_reloads", 1)
			}
			if len(pendingSnaps) == 0 && wasDirty && !onPebble {
				// the commit wrote nothing although the trie had uncommitted mutations
				if f, _ := c11resolvable(last, st.Clone()); f != "" {
					fail("", "commit(%d) of a trie with uncommitted mutations wrote nothing; the committed root %x is not recoverable: %s", lvl, wr, f)
					return
				}
			}
			if !judge("commit", prev, true) {
				return
			}
			rootReadWhileDirty = false
		case x < 84 && class == 'D' && len(keys) > 0 && len(keys) <= 4:
			// every live key is deleted: the uncommitted trie is empty (its root is not a dirty node any more)
			c.Tracef("del all (%d keys)", len(keys))
			noteShared()
			for _, ks := range keys {
				grave[ks] = m[ks]
				if err := wl.Upd(t, []byte(ks), nil, 0); err != nil {
					fail("", "delete failed: %v", err)
					return
				}
				delete(m, ks)
			}
			dirty, gcSinceMutation = true, 0
			c.Count("tries_emptied_by_uncommitted_deletes", 1)
			if r.Intn(2) == 0 { // two garbage-collection passes right away, the deletes still uncommitted
				for k := 0; k < 2; k++ {
					c.Tracef("gc")
					gcSinceMutation++
					c.Count("gc_on_dirty_trie", 1)
					if err := t.DeleteNodes(); err != nil {
						fail("", "DeleteNodes failed: %v", err)
						return
					}
					c.Count("gc_passes", 1)
					if len(pendingSnaps) == 0 {
						pendingSnaps = append(pendingSnaps, st.Clone())
					}
					if !judge("gc", last, false) {
						return
					}
				}
				c.Count("two_gc_passes_on_an_emptied_uncommitted_trie", 1)
			}
		case x < 92:
			if dirty && class != 'D' {
				continue
			}
			c.Tracef("gc")
			if dirty {
				gcSinceMutation++
				c.Count("gc_on_dirty_trie", 1)
			}
			if err := t.DeleteNodes(); err != nil {
				fail("", "DeleteNodes failed: %v", err)
				return
			}
			c.Count("gc_passes", 1)
			if len(pendingSnaps) == 0 { // nothing deleted: still a quiescent point to check
				pendingSnaps = append(pendingSnaps, st.Clone())
			}
			if !judge("gc", last, false) {
				return
			}
		default:
			if class != 'C' && dirty {
				continue
			}
			c.Tracef("Root()")
			wr, _ := m.Ref()
			if got := t.Root(); !bytes.Equal(got, wr) {
				fail("", "Root() = %x, reference root = %x", got, wr)
				return
			}
			if dirty {
				rootReadWhileDirty = true
				c.Count("root_reads_on_dirty_trie", 1)
			}
			// a proof is a read as well: taken on a trie with uncommitted changes it must be the proof of the current
			// content, and the commit that follows must still write those changes
			if ww := m.Weight(); ww > 0 && r.Intn(2) == 0 {
				b := 1 + uint64(r.Intn(int(ww)))
				c.Tracef("GetBlockProof(%d)", b)
				k, proof, perr := t.GetBlockProof(b)
				if perr != nil {
					fail("", "GetBlockProof(%d of %d) failed: %v", b, ww, perr)
					return
				}
				owner, _ := m.Owner(b)
				h, val, verr := wmpt.New(nil, nil).VerifyBlockProof(b, proof)
				if string(k) != owner || verr != nil || !bytes.Equal(h, wr) || !bytes.Equal(val, m[owner].Val) {
					fail("", "GetBlockProof(%d of %d): owner %x (want %x), verify error %v, root %x (want %x)", b, ww, k, owner, verr, h, wr)
					return
				}
				if dirty {
					c.Count("proofs_on_dirty_trie", 1)
				}
			}
		}
		if t.Weight() != m.Weight() {
			fail("", "Weight() = %d, sum of live weights = %d", t.Weight(), m.Weight())
			return
		}
		c.Count("steps", 1)
	}
	c.Count("histories", 1)
	c.Count(fmt.Sprintf("class:%c", class), 1)
	if onPebble {
		c.Count("histories_on_pebble", 1)
	}
	c.NonTrivial(fw.Hash64(strings.Join(c.Trace(), ";")))
	if c.Idx < 4 {
		c.Sample(map[string]any{"class": string(class), "history": c.Trace()})
	}
}

func sortStrings(s []string) {
	for i := 1; i < len(s); i++ {
		for j := i; j > 0 && s[j] < s[j-1]; j-- {
			s[j], s[j-1] = s[j-1], s[j]
		}
	}
}

func init() {
	fw.Register(&fw.Prop{
		ID:    "C11",
		Level: "fault_enumeration",
		Rule: "histories of 10..30 (quick) / 10..70 (thorough) steps: update, overwrite, delete, re-add of identical earlier content (same and later commit windows), delete+re-add in one window, Commit(level 0..5)+batch, garbage-collection passes, Root() reads and block proofs taken on the dirty trie (class C), all live keys deleted followed by two GC passes before any commit (class D). " +
			"The logging storage adapter snapshots the store after EVERY physical operation (a committed batch is one atomic operation); for each snapshot the last durably committed root is reopened from just (hash, weight) on a copy and must be observationally identical to the model " +
			"(weight, root, owner/value/verifying proof of every block) with every canonical node present. Scenario classes: A unique content, GC only on a clean trie; D GC also while the trie holds uncommitted mutations; B values drawn from a 3-element pool (identical content under several keys); " +
			"C Root() read between a mutation and the next commit. Every 200th class-A history runs on real pebble (reload after each commit). non-trivial/distinct = distinct history traces",
		Cases: func(tier string) int {
			if tier == "thorough" {
				return 1000000
			}
			return 64000
		},
		Run:    runC11,
		Floors: map[string]int64{"tries_emptied_by_uncommitted_deletes": 1500, "proofs_on_dirty_trie": 2000, "two_gc_passes_on_an_emptied_uncommitted_trie": 700, "histories": 60000, "crash_points": 200000, "commits": 100000, "gc_passes": 30000, "readd_identical": 30000, "del_readd_same_window": 10000, "class:A": 10000, "class:B": 10000, "class:C": 10000, "class:D": 10000, "gc_on_dirty_trie": 5000, "root_reads_on_dirty_trie": 5000, "histories_on_pebble": 50},
		Assumptions: []string{
			"storage model: completed operations are durable, batches atomic; the state after i operations is what a crash after the i-th operation leaves",
			"each scenario class has a classifier for the known findings that applies only to its specific mechanism (see DESIGN.md §6 C11)",
		},
	})
}
