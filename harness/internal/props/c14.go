package props

import (
	"bytes"
	"context"
	"fmt"
	"math/rand"
	"strings"

	"github.com/0chain/common/core/util"
	"github.com/linxGnu/grocksdb"

	"verif/harness/internal/fw"
	"verif/harness/internal/model"
	lab "verif/harness/internal/mptlab"
)

// C14 — every stored trie node is addressed by its own hash and round-trips through encode/decode.

func genSepValue(r *rand.Rand, tag int) []byte {
	switch r.Intn(9) {
	case 0:
		return []byte(":")
	case 1:
		return []byte("::::")
	case 2:
		return []byte(fmt.Sprintf(":%d", tag))
	case 3:
		return []byte(fmt.Sprintf("%d:", tag))
	case 4:
		return []byte{0, ':', 0}
	case 5:
		b := make([]byte, 1+r.Intn(200))
		r.Read(b)
		return b
	case 6:
		b := make([]byte, 33) // looks like a separator followed by a raw hash
		r.Read(b)
		b[0] = ':'
		return b
	case 7:
		return []byte("0123456789abcdef:0123456789abcdef:")
	default:
		if r.Intn(12) == 0 { // a value of several KiB (encodings larger than any small scratch buffer)
			b := make([]byte, 4200+r.Intn(5000))
			r.Read(b)
			return b
		}
		return lab.GenValue(r, tag)
	}
}

type c14sweep struct {
	c *fw.Ctx
	// an encoding handed out by an earlier Encode call is kept as it was returned, next to a copy made at once: the
	// result belongs to the caller, later Encode calls (of any node) must not change it
	held, heldCopy []byte
}

func (s *c14sweep) node(where string, key []byte, enc []byte, n util.Node) bool {
	c := s.c
	c.Count("nodes_swept", 1)
	if n != nil {
		if hb := n.GetHashBytes(); !bytes.Equal(hb, key) {
			c.Violate("", "%s: node stored under %x has GetHashBytes() %x", where, key, hb)
			return false
		}
	}
	pn, err := model.ParseStored(enc)
	if err != nil {
		c.Violate("", "%s: stored encoding under %x does not parse: %x", where, key, enc)
		return false
	}
	if h := pn.Hash(); !bytes.Equal(h, key) {
		c.Violate("", "%s: node stored under %x re-hashes from its stored encoding to %x (encoding %x)", where, key, h, enc)
		return false
	}
	n2, err := util.CreateNode(bytes.NewReader(enc))
	if err != nil {
		c.Violate("", "%s: CreateNode fails on a stored encoding: %v (%x)", where, err, enc)
		return false
	}
	if h2 := n2.GetHashBytes(); !bytes.Equal(h2, key) {
		c.Violate("", "%s: decode(encode(node)) hashes to %x, node is stored under %x (encoding %x)", where, h2, key, enc)
		return false
	}
	e2 := n2.Encode()
	if !bytes.Equal(e2, enc) {
		c.Violate("", "%s: encode(decode(enc)) = %x differs from enc = %x", where, e2, enc)
		return false
	}
	if s.held != nil && !bytes.Equal(s.held, s.heldCopy) {
		c.Violate("", "%s: an encoding returned by an earlier Encode call (%d bytes) changed after later Encode calls", where, len(s.heldCopy))
		return false
	}
	if len(e2) > 4000 || s.held == nil || c.Rng.Intn(8) == 0 {
		s.held, s.heldCopy = e2, append([]byte(nil), e2...)
		if len(e2) > 4096 {
			c.Count("big_encodings_held_across_later_encodes", 1)
		}
	}
	// any origin/version: advance the version mark only (as a prune mark pass does) and round-trip again:
	// the hash depends on the origin only, and both fields must come back where they were put
	if c.Rng.Intn(4) == 0 {
		bump := util.Sequence(1 + c.Rng.Intn(1000))
		n2.SetVersion(n2.GetOrigin() + bump)
		e3 := n2.Encode()
		n3, err := util.CreateNode(bytes.NewReader(e3))
		if err != nil {
			c.Violate("", "%s: CreateNode fails after advancing the version mark: %v", where, err)
			return false
		}
		if n3.GetOrigin() != n2.GetOrigin() || n3.GetVersion() != n2.GetVersion() {
			c.Violate("", "%s: node with origin %d / version %d decodes as origin %d / version %d", where, n2.GetOrigin(), n2.GetVersion(), n3.GetOrigin(), n3.GetVersion())
			return false
		}
		if h3 := n3.GetHashBytes(); !bytes.Equal(h3, key) {
			c.Violate("", "%s: after advancing only the version mark, decode(encode(node)) hashes to %x, the node's key is %x", where, h3, key)
			return false
		}
		if !bytes.Equal(n3.Encode(), e3) {
			c.Violate("", "%s: encode(decode(enc)) differs after advancing the version mark", where)
			return false
		}
		if p3, perr := model.ParseStored(e3); perr != nil || p3.Origin != int64(n2.GetOrigin()) || p3.Version != int64(n2.GetVersion()) || !bytes.Equal(p3.Hash(), key) {
			c.Violate("", "%s: stored layout (type, LE64 version, LE64 origin, body) not respected after advancing the version mark: %x", where, e3)
			return false
		}
		c.Count("version_mark_round_trips", 1)
	}
	// kind coverage
	switch pn.Type {
	case 2:
		if pn.Path == "" {
			c.Count("kind:leaf-emptypath", 1)
		} else {
			c.Count("kind:leaf-path", 1)
		}
		if bytes.IndexByte(pn.Value, ':') >= 0 {
			c.Count("kind:value-with-separator", 1)
		}
	case 4:
		nch := 0
		for _, ch := range pn.Children {
			if ch != nil {
				nch++
			}
		}
		if len(pn.Value) > 0 {
			c.Count("kind:branch-value", 1)
			if bytes.IndexByte(pn.Value, ':') >= 0 {
				c.Count("kind:value-with-separator", 1)
			}
		} else {
			c.Count("kind:branch-novalue", 1)
		}
		c.Distinct("branch_child_counts", uint64(nch))
	case 8:
		if len(pn.Path) == 1 {
			c.Count("kind:ext-len1", 1)
		} else {
			c.Count("kind:ext-long", 1)
		}
		if bytes.IndexByte(pn.Child, ':') >= 0 {
			c.Count("kind:ext-childhash-contains-separator-byte", 1)
		}
	}
	if pn.Origin != pn.Version {
		c.Count("kind:origin-differs-from-version-field", 1)
	}
	c.Distinct("nontrivial", fw.Hash64(enc))
	return true
}

func (s *c14sweep) store(where string, db util.NodeDB, disk string) bool {
	switch d := db.(type) {
	case *util.MemoryNodeDB:
		ok := true
		_ = d.Iterate(context.Background(), func(ctx context.Context, key util.Key, n util.Node) error {
			if !s.node(where+"/memory", key, n.Encode(), n) {
				ok = false
			}
			return nil
		})
		return ok
	case *util.LevelNodeDB:
		return s.store(where+"/level.current", d.GetCurrent(), disk) && s.store(where+"/level.prev", d.GetPrev(), disk)
	case *util.PNodeDB:
		for k, enc := range grocksdb.Control(disk).Snapshot()["default"] {
			if !s.node(where+"/persistent", []byte(k), enc, nil) {
				return false
			}
		}
		// and through the store's own read path
		ok := true
		_ = d.Iterate(context.Background(), func(ctx context.Context, key util.Key, n util.Node) error {
			if hb := n.GetHashBytes(); !bytes.Equal(hb, key) {
				s.c.Violate("", "%s/persistent: node read back under %x has GetHashBytes() %x", where, key, hb)
				ok = false
			}
			return nil
		})
		return ok
	}
	return true
}

func runC14(c *fw.Ctx) {
	r := c.Rng
	g := lab.NewPathGen(r)
	sw := &c14sweep{c: c}
	// every 8th case runs with the package's debug switch on: what is stored may not depend on it
	if (c.Idx/16+c.Idx)%8 == 6 {
		util.DebugMPTNode = true
		defer func() { util.DebugMPTNode = false }()
		c.Count("cases_with_debug_switch_on", 1)
	}
	// every 12th case: one trie object lives through all rounds (SetVersion per round), so that nodes whose origin differs
	// from the trie's version at the time of the save are written; the store is swept after every save
	if (c.Idx/16+c.Idx)%12 == 7 {
		longLivedHistory(c, "C14", func(disk string, pndb *util.PNodeDB) bool {
			if !sw.store("persistent store under a long-lived trie", pndb, disk) {
				c.Violate("", "history: %s", strings.Join(c.Trace(), "; "))
				return false
			}
			return true
		})
		c.Count("histories:long-lived-trie", 1)
		return
	}
	switch c.Idx % 3 {
	case 0, 1: // direct histories on one of the four stores, with version bumps
		mdl := map[string][]byte{}
		kind := (c.Idx / 3) % 4
		st, root := openStore(c, kind, g, mdl, "s")
		defer st.cleanup()
		disk := fmt.Sprintf("/verif-stub/%s/%d/%d/%s", c.Prop.ID, c.Seed, c.Idx, "s")
		version := int64(2)
		m := lab.NewMPT(st.db, version, root)
		var vbox lab.ValueBox
		defer func() { c.Count("inserts_with_a_reused_value_object", vbox.Used) }()
		nops := 10 + r.Intn(40)
		for i := 0; i < nops; i++ {
			if r.Intn(7) == 0 {
				version += int64(1 + r.Intn(3))
				m = lab.NewMPT(st.db, version, m.GetRoot())
				c.Tracef("reopen v%d", version)
			}
			p := g.Pick(lab.SortedKeys(mdl))
			if r.Intn(4) == 0 {
				c.Tracef("del %q", p)
				_, _ = m.Delete(util.Path(p))
				delete(mdl, p)
			} else {
				v := genSepValue(r, i)
				c.Tracef("ins %q=%q", p, v)
				if _, err := m.Insert(util.Path(p), vbox.V(v)); err != nil {
					c.Violate("", "Insert(%q) failed: %v", p, err)
					return
				}
				mdl[p] = v
			}
			if i%8 == 7 || i == nops-1 {
				// reads whose returned bytes the harness overwrites (lab.CheckMap) must leave every stored node intact
				if f := lab.CheckMap(m, mdl, nil); f != "" {
					c.Violate("", "%s: %s; history: %s", st.name, f, strings.Join(c.Trace(), "; "))
					return
				}
				if !sw.store(st.name, st.db, disk) {
					c.Violate("", "history: %s", strings.Join(c.Trace(), "; "))
					return
				}
				// (iii) the root recomputes bottom-up from stored encodings and reads the model content
				get := func(k []byte) []byte {
					n, err := st.db.GetNode(k)
					if err != nil || n == nil {
						return nil
					}
					return n.Encode()
				}
				got, _, err := model.ReadContent(m.GetRoot(), get)
				if err != nil {
					c.Violate("", "%s: trie does not re-compute to its root from stored encodings: %v; history: %s", st.name, err, strings.Join(c.Trace(), "; "))
					return
				}
				if !lab.EqualContent(got, mdl) {
					c.Violate("", "%s: stored encodings read back as %s, model is %s", st.name, lab.FmtContent(got), lab.FmtContent(mdl))
					return
				}
				c.Count("root_recomputations", 1)
			}
		}
		c.Count("histories:"+st.name, 1)
		// sync from a donor that holds one node under a key that is not its hash (a faulty peer): whatever the trie
		// writes to its own store must still be stored under the hash of its own content
		if nodes, _ := lab.Walk(st.db, m.GetRoot()); len(nodes) >= 2 {
			donor := util.NewMemoryNodeDB()
			for _, n := range nodes {
				_ = donor.PutNode(n.Key, n.Node)
			}
			a, b := nodes[r.Intn(len(nodes))], nodes[r.Intn(len(nodes))]
			if !bytes.Equal(a.Key, b.Key) {
				donor.Nodes[util.StrKey(a.Key)] = b.Node.CloneNode() // b's content planted under a's key
				target := util.NewMemoryNodeDB()
				T := lab.NewMPT(target, version, nil)
				if err := T.MergeDB(donor, m.GetRoot(), nil); err == nil {
					if !sw.store("after MergeDB from a donor with a mis-keyed node", target, "") {
						c.Violate("", "history: %s", strings.Join(c.Trace(), "; "))
						return
					}
					c.Count("miskeyed_donor_syncs", 1)
				}
			}
		}
		// the library's own validator of a partial state must agree with the sweep above: a memory store holding exactly the
		// reachable nodes validates against its root and ComputeRoot finds that root; the same store with one node's content
		// replaced by a node that does not hash to the key is refused
		if nodes, _ := lab.Walk(st.db, m.GetRoot()); len(nodes) >= 2 {
			ps := util.NewMemoryNodeDB()
			for _, n := range nodes {
				_ = ps.PutNode(n.Key, n.Node)
			}
			rootNode := nodes[0].Node
			if err := ps.Validate(rootNode); err != nil {
				c.Violate("", "%s: Validate refuses a memory store holding exactly the nodes reachable from the root: %v; history: %s", st.name, err, strings.Join(c.Trace(), "; "))
				return
			}
			if cr, err := ps.ComputeRoot(); err != nil || cr == nil || !bytes.Equal(cr.GetHashBytes(), m.GetRoot()) {
				c.Violate("", "%s: ComputeRoot on a memory store holding exactly the reachable nodes = %v, %v; the root is %x", st.name, cr, err, m.GetRoot())
				return
			}
			victim := nodes[1+r.Intn(len(nodes)-1)]
			forged := util.NewLeafNode(util.Path(""), util.Path("0f"), util.Sequence(version), &util.SecureSerializableValue{Buffer: []byte(fmt.Sprintf("forged-%d", c.Idx))})
			ps.Nodes[util.StrKey(victim.Key)] = forged
			if err := ps.Validate(rootNode); err == nil {
				c.Violate("", "%s: Validate accepts a store in which the node under key %x does not hash to that key (its hash is %x)", st.name, victim.Key, forged.GetHashBytes())
				return
			}
			c.Count("validator_agreements", 1)
		}
	default: // multi-round histories saved to the persistent store
		disk := fmt.Sprintf("/verif-stub/C14/%d/%d/main", c.Seed, c.Idx)
		defer grocksdb.DropDisk(disk)
		pndb, _ := util.NewPNodeDB(disk, "")
		cur := map[string][]byte{}
		grave := map[string][]byte{}
		var root []byte
		var saved []rSaved
		fat := r.Intn(8) == 0
		for v := int64(1); v <= int64(3+r.Intn(5)); v++ {
			rd, next := genRound(c, g, v, cur, grave)
			for ti := range rd.txns { // bias values to separators
				for oi := range rd.txns[ti].ops {
					if !rd.txns[ti].ops[oi].del && r.Intn(2) == 0 {
						rd.txns[ti].ops[oi].val = genSepValue(r, int(v))
					}
				}
			}
			next = replayModel(cur, rd)
			if fat && v == 2 {
				rd, next = genFatRound(c, v, cur, 280+r.Intn(200))
			}
			c.Tracef("%s", rd.String())
			nr, dead, err := execRound(pndb, root, rd)
			if err != nil {
				c.Violate("", "round failed: %v; %s", err, strings.Join(c.Trace(), "\n"))
				return
			}
			root, cur = nr, next
			saved = append(saved, rSaved{version: v, root: append([]byte(nil), nr...), model: lab.CopyContent(next), dead: dead})
			if !sw.store("rounds", pndb, disk) {
				c.Violate("", "history: %s", strings.Join(c.Trace(), "\n"))
				return
			}
			snap := grocksdb.Control(disk).Snapshot()["default"]
			for _, s := range saved {
				got, _, err := model.ReadContent(s.root, func(k []byte) []byte { return snap[string(k)] })
				if err != nil || !lab.EqualContent(got, s.model) {
					c.Violate("", "root saved at v%d does not re-compute from the persistent store: %v; %s", s.version, err, strings.Join(c.Trace(), "\n"))
					return
				}
				c.Count("root_recomputations", 1)
			}
		}
		pndb.Close()
		c.Count("histories:rounds-on-persistent", 1)
	}
	if c.Idx < 3 {
		tr := c.Trace()
		if len(tr) > 25 {
			tr = tr[:25]
		}
		c.Sample(map[string]any{"history": tr})
	}
}

func init() {
	fw.Register(&fw.Prop{
		ID:           "C14",
		EvalCounters: []string{"nodes_swept"},
		Level:        "exploration",
		Rule: "(Every 8th case runs with the package's debug switch on; every 12th case keeps one trie object through all rounds - SetVersion per round, saved every round - and sweeps the persistent store after every save, so that nodes whose origin differs from the trie version at save time are written.) (The library's own partial-state validator must agree with the sweep: MemoryNodeDB.Validate/ComputeRoot accept a store holding exactly the reachable nodes and refuse it once one node is replaced by content that does not hash to its key.) workloads: (a) direct insert/delete histories with version bumps on memory / layered / persistent / layered-over-persistent stores, (b) multi-round block histories saved to the persistent store (same generator as C04, every 8th with a fat round of several hundred changed nodes in one save); values are biased to separator bytes " +
			"(':', '::::', leading/trailing ':', 0x00, 200-byte binary, ':'+32 random bytes, hex-looking strings). Every 8 operations and at the end, every node of every store level involved is swept: stored key == GetHashBytes() == sha3(LE64(origin)‖body) recomputed by the harness' own parser from the stored encoding; " +
			"CreateNode(enc) has the same hash and re-encodes to the same bytes; for a quarter of the nodes the version mark alone is advanced (origin != version) and the round trip repeated (fields preserved, hash unchanged, stored layout respected); after each direct history the state is synced with MergeDB from a donor store in which one node is planted under another node's key, and the target store is swept; the trie root re-computes bottom-up from stored encodings and reads the model content (for every saved root in (b)). distinct non-trivial = distinct stored encodings swept",
		Cases: func(tier string) int {
			if tier == "thorough" {
				return 240000
			}
			return 9600
		},
		Run: runC14,
		Floors: map[string]int64{"nodes_swept": 300000, "big_encodings_held_across_later_encodes": 1000, "root_recomputations": 20000, "kind:leaf-emptypath": 1000, "kind:leaf-path": 1000, "kind:branch-value": 1000, "kind:branch-novalue": 1000, "kind:ext-len1": 1000, "kind:ext-long": 1000,
			"kind:value-with-separator": 10000, "kind:ext-childhash-contains-separator-byte": 100, "distinct:branch_child_counts": 3,
			"histories:memory": 100, "histories:persistent": 100, "histories:rounds-on-persistent": 1000, "fat_rounds": 100, "version_mark_round_trips": 50000, "validator_agreements": 3500, "cases_with_debug_switch_on": 1000, "histories:long-lived-trie": 600, "miskeyed_donor_syncs": 3000},
		Assumptions: []string{"node kinds are those the operation histories produce; the hash format is the one read from the pinned code (see C02)"},
	})
}
