package props

import (
	"bytes"
	"context"
	"encoding/binary"
	"fmt"
	"math/rand"
	"strings"

	"github.com/0chain/common/core/util"
	"github.com/0chain/common/core/util/wmpt"
	"github.com/fxamacker/cbor/v2"
	"github.com/linxGnu/grocksdb"

	"verif/harness/internal/fw"
	lab "verif/harness/internal/mptlab"
	wl "verif/harness/internal/wmlab"
)

// C15 — decoders reject malformed bytes without crashing, and anything accepted re-encodes without panicking.

const (
	tCreateNode = iota
	tDeserializeNode
	tDeserializeTrie
	tVerifyProof
	tDeadNodes
)

var c15targets = []string{"util.CreateNode", "wmpt.DeserializeNode", "WeightedMerkleTrie.Deserialize", "WeightedMerkleTrie.VerifyBlockProof", "PNodeDB.PruneBelowVersion(dead-node record)"}

type c15run struct {
	c      *fw.Ctx
	target int
	block  uint64
	seq    int
}

var c15store *util.PNodeDB // per worker: malformed records are planted in it and read back

var c15reused *wmpt.WeightedMerkleTrie // the long-lived decoder object of this worker process

// feed hands one input to the target. A panic (recovered here) is a violation; a fatal error or a stall kills the
// worker and is reported by the driver together with the input written to disk just before the call.
func (r *c15run) feed(mut string, in []byte) {
	c := r.c
	if len(in) > 64<<10 {
		in = in[:64<<10]
	}
	r.seq++
	c.Count("inputs", 1)
	c.Count("inputs:"+c15targets[r.target], 1)
	c.Count("mutator:"+mut, 1)
	c.Checkpoint(c15targets[r.target], in)
	c.Distinct("nontrivial", fw.Hash64(r.target, in))
	defer func() {
		if rec := recover(); rec != nil {
			msg := fmt.Sprint(rec)
			if len(msg) > 120 {
				msg = msg[:120]
			}
			kind := msg
			if len(kind) > 28 {
				kind = kind[:28]
			}
			kind = strings.NewReplacer("(", " ", ":", " ", "=", " ", "\"", " ").Replace(kind)
			c.Violate("", "%s panics [%s] (%s); mutator: %s; %d-byte input: %x", c15targets[r.target], kind, msg, mut, len(in), clipBytes(in, 600))
		}
	}()
	switch r.target {
	case tCreateNode:
		if r.seq%4 == 0 {
			// the same bytes as a stored record, read through the persistent store (alternately with the debug switch on,
			// which adds a key check to the store's code path)
			if c15store == nil {
				c15store, _ = util.NewPNodeDB("/verif-stub/C15/getnode", "")
			}
			key := bytes.Repeat([]byte{0x5c}, 32)
			grocksdb.Control("/verif-stub/C15/getnode").PutRaw("default", key, in)
			dbg := r.seq%8 == 0
			func() {
				if dbg {
					util.DebugMPTNode = true
					defer func() { util.DebugMPTNode = false }()
				}
				if sn, gerr := c15store.GetNode(key); gerr == nil && sn != nil {
					_ = sn.Encode()
				}
			}()
			c.Count("stored_records_read_through_the_persistent_store", 1)
		}
		n, err := util.CreateNode(bytes.NewReader(in))
		if err != nil || n == nil {
			c.Count("rejected", 1)
			return
		}
		c.Count("accepted", 1)
		enc := n.Encode()
		_ = n.GetHashBytes()
		_ = n.GetHash()
		if nn, err2 := util.CreateNode(bytes.NewReader(enc)); err2 == nil && nn != nil {
			_ = nn.Encode()
		}
		_ = n.CloneNode()
	case tDeserializeNode:
		n, err := wmpt.DeserializeNode(in)
		if err != nil || n == nil {
			c.Count("rejected", 1)
			return
		}
		c.Count("accepted", 1)
		_, _ = n.Serialize()
		_ = n.Hash()
		_ = n.Weight()
		_ = n.Copy()
		_ = n.CopyRoot(0, 2)
	case tDeserializeTrie:
		// every other input goes to one long-lived trie object per worker (a decoder that is left locked or half-updated by
		// a rejected input hangs or misbehaves on the next one; the stall monitor reports a call that does not return)
		t := wmpt.New(nil, nil)
		returned := false
		if r.seq%2 == 1 {
			if c15reused == nil {
				c15reused = wmpt.New(nil, nil)
			}
			t = c15reused
			c15reused = nil // put back once the calls below have returned (after a panic the next input gets a fresh one)
			defer func() {
				if returned {
					c15reused = t
				}
			}()
			c.Count("inputs_to_a_reused_trie_object", 1)
		}
		if err := t.Deserialize(in); err != nil {
			returned = true
			c.Count("rejected", 1)
			return
		}
		c.Count("accepted", 1)
		_ = t.Root()
		_ = t.Weight()
		_, _ = t.GetPath(nil)
		// a re-export from the storage-less trie just decoded: for keys it may or may not cover, in the single and in the
		// parallel collection mode (it may fail, it must return)
		var ks [][]byte
		for i := 0; i < 12; i++ {
			k := bytes.Repeat([]byte{byte(i * 23)}, 32)
			if len(in) > i {
				k[0], k[31] = in[i], in[len(in)-1-i]
			}
			ks = append(ks, k)
		}
		_, _ = t.GetPath(ks[:1])
		_, _ = t.GetPath(ks)
		returned = true
	case tDeadNodes:
		// the bytes are planted as the dead-node record of version 1 and decoded by the pruner (its iterator runs in a
		// goroutine of its own: a panic there kills the worker and is reported by the driver with this input)
		disk := fmt.Sprintf("/verif-stub/C15/%d/%d", c.Seed, c.Idx)
		p, err := util.NewPNodeDB(disk, "")
		if err != nil {
			panic(err)
		}
		grocksdb.Control(disk).PutRaw("dead_nodes", []byte{0, 0, 0, 0, 0, 0, 0, 1}, in)
		perr := p.PruneBelowVersion(context.Background(), 5)
		p.Close()
		grocksdb.DropDisk(disk)
		if perr != nil {
			c.Count("rejected", 1)
		} else {
			c.Count("accepted", 1)
		}
	case tVerifyProof:
		t := wmpt.New(nil, nil)
		_, _, err := t.VerifyBlockProof(r.block, in)
		if err != nil {
			c.Count("rejected", 1)
			return
		}
		c.Count("accepted", 1)
		_ = t.Root()
	}
}

func clipBytes(b []byte, n int) []byte {
	if len(b) > n {
		return b[:n]
	}
	return b
}

// ---- corpus ----

type c15corpus struct {
	mptNodes  [][]byte // stored encodings of state-trie nodes
	wmNodes   [][]byte // serialised weighted-trie nodes
	exports   [][]byte // GetPath exports
	proofs    [][]byte
	proofBlks []uint64
}

func harvest(r *rand.Rand) *c15corpus {
	cp := &c15corpus{}
	g := lab.NewPathGen(r)
	db := util.NewMemoryNodeDB()
	m := lab.NewMPT(db, int64(1+r.Intn(9)), nil)
	mdl := map[string][]byte{}
	for i := 0; i < 14; i++ {
		p := g.Pick(lab.SortedKeys(mdl))
		v := genSepValue(r, i)
		if _, err := m.Insert(util.Path(p), &lab.Val{B: v}); err == nil {
			mdl[p] = v
		}
	}
	nodes, _ := lab.Walk(db, m.GetRoot())
	for _, n := range nodes {
		cp.mptNodes = append(cp.mptNodes, n.Node.Encode())
	}
	vn := util.NewValueNode()
	vn.SetValue(&util.SecureSerializableValue{Buffer: []byte("value:node")})
	cp.mptNodes = append(cp.mptNodes, vn.Encode())
	// weighted trie
	wg := &wl.Gen{R: r}
	st := wl.NewMem()
	t := wmpt.New(nil, st)
	wm := wl.Model{}
	for i := 0; i < 3+r.Intn(10); i++ {
		k := wg.Key(wm.Keys())
		v, w := wg.Value()
		if t.Update(k, v, w) == nil {
			wm[string(k)] = wl.Entry{Val: v, W: w}
		}
	}
	if b, err := t.Commit(r.Intn(5)); err == nil {
		_ = b.Commit(true)
	}
	for _, v := range st.Snapshot() {
		cp.wmNodes = append(cp.wmNodes, v)
	}
	hn, _ := wmpt.NewHashNode(bytes.Repeat([]byte{7}, 32), 9).Serialize()
	cp.wmNodes = append(cp.wmNodes, hn)
	nilb, _ := cbor.Marshal(&wmpt.PersistNodeBase{NilNode: &wmpt.PersistNilNode{}})
	cp.wmNodes = append(cp.wmNodes, nilb)
	wr, ww := wm.Ref()
	keys := wm.Keys()
	for _, nk := range []int{0, 1, 3, 12} {
		var req [][]byte
		for i := 0; i < nk && len(keys) > 0; i++ {
			req = append(req, []byte(keys[r.Intn(len(keys))]))
		}
		src := wl.Reopen(wr, ww, st)
		if d, err := src.GetPath(req); err == nil {
			cp.exports = append(cp.exports, d)
		}
	}
	src := wl.Reopen(wr, ww, st)
	for b := uint64(1); b <= ww && b <= 6; b++ {
		if _, p, err := src.GetBlockProof(b); err == nil {
			cp.proofs = append(cp.proofs, p)
			cp.proofBlks = append(cp.proofBlks, b)
		}
	}
	return cp
}

// ---- generic byte-level mutators ----

func (r *c15run) byteMutations(base []byte, rnd *rand.Rand, exhaustive bool) {
	// every truncation length (exhaustive for encodings <= 512 bytes)
	step := 1
	if len(base) > 512 || !exhaustive {
		step = 1 + len(base)/200
	}
	for n := 0; n < len(base); n += step {
		r.feed("truncation", base[:n])
	}
	// every value of the first byte (type byte of state-trie nodes / CBOR head)
	for b := 0; b < 256; b++ {
		x := append([]byte(nil), base...)
		if len(x) > 0 {
			x[0] = byte(b)
		}
		r.feed("first byte 0..255", x)
	}
	// removal of each separator
	for i, ch := range base {
		if ch == ':' {
			r.feed("separator removed", append(append([]byte(nil), base[:i]...), base[i+1:]...))
		}
	}
	// k-bit flips, byte inserts/deletes, head inflation
	for k := 0; k < 60; k++ {
		x := append([]byte(nil), base...)
		if len(x) == 0 {
			break
		}
		switch rnd.Intn(4) {
		case 0:
			for j := 0; j < 1+rnd.Intn(3); j++ {
				x[rnd.Intn(len(x))] ^= 1 << uint(rnd.Intn(8))
			}
			r.feed("bit flips", x)
		case 1:
			i := rnd.Intn(len(x))
			r.feed("byte deleted", append(x[:i:i], x[i+1:]...))
		case 2:
			i := rnd.Intn(len(x))
			y := append(append(append([]byte(nil), x[:i]...), byte(rnd.Intn(256))), x[i:]...)
			r.feed("byte inserted", y)
		default:
			// CBOR head inflation: turn a small length head into a 1/2/4/8-byte length
			i := rnd.Intn(len(x))
			major := x[i] & 0xe0
			add := []int{24, 25, 26, 27}[rnd.Intn(4)]
			y := append([]byte(nil), x[:i]...)
			y = append(y, major|byte(add))
			ext := make([]byte, 1<<uint(add-24))
			if rnd.Intn(2) == 0 {
				for j := range ext {
					ext[j] = 0xff
				}
			} else {
				ext[len(ext)-1] = byte(rnd.Intn(256))
			}
			y = append(y, ext...)
			y = append(y, x[i+1:]...)
			r.feed("cbor head inflated", y)
		}
	}
}

func runC15(c *fw.Ctx) {
	r := c.Rng
	cp := harvest(r)
	target := c.Idx % 5
	run := &c15run{c: c, target: target, block: 1}
	exhaustive := true
	switch target {
	case tCreateNode:
		for _, enc := range cp.mptNodes {
			run.byteMutations(enc, r, exhaustive)
			// field splicing between encodings
			o := cp.mptNodes[r.Intn(len(cp.mptNodes))]
			for k := 0; k < 10; k++ {
				i, j := r.Intn(len(enc)+1), r.Intn(len(o)+1)
				run.feed("field splice", append(append([]byte(nil), enc[:i]...), o[j:]...))
			}
			// header kept, body replaced
			if len(enc) >= 17 {
				for _, body := range [][]byte{nil, []byte(":"), []byte("::"), []byte("ab:"), []byte(":cd"), bytes.Repeat([]byte(":"), 15), bytes.Repeat([]byte(":"), 16), bytes.Repeat([]byte(":"), 17),
					append(bytes.Repeat([]byte("a"), 63), ':'), append(bytes.Repeat([]byte("a"), 65), ':'), append(bytes.Repeat([]byte("a"), 66), ':'), append(bytes.Repeat([]byte("zz"), 32), ':')} {
					for tb := 0; tb < 16; tb++ {
						x := append([]byte{byte(tb)}, enc[1:17]...)
						run.feed("type byte x crafted body", append(x, body...))
					}
				}
				// branch child hex strings of every length 0..140 in the first slot
				if enc[0]&util.NodeTypesAll == util.NodeTypeFullNode {
					for l := 0; l <= 140; l++ {
						x := append([]byte(nil), enc[:17]...)
						x = append(x, bytes.Repeat([]byte("a"), l)...)
						x = append(x, bytes.Repeat([]byte(":"), 16)...)
						run.feed("branch child hex of length 0..140", x)
					}
				}
			}
		}
		for k := 0; k < 400; k++ {
			b := make([]byte, r.Intn(80))
			r.Read(b)
			run.feed("random bytes", b)
		}
	case tDeserializeNode:
		for _, enc := range cp.wmNodes {
			run.byteMutations(enc, r, exhaustive)
		}
		// crafted structures: child blobs of every length 0..80, branch arrays of 0..20 children, nil elements, swapped map keys
		for l := 0; l <= 80; l++ {
			blob := make([]byte, l)
			r.Read(blob)
			for _, nch := range []int{16, 1, 17} {
				ch := make([][]byte, nch)
				ch[r.Intn(nch)] = blob
				b, _ := cbor.Marshal(&wmpt.PersistNodeBase{Branch: &wmpt.PersistNodeBranch{Hash: bytes.Repeat([]byte{1}, 32), Children: ch}})
				run.feed("branch child blob of length 0..80", b)
			}
			b, _ := cbor.Marshal(&wmpt.PersistNodeBase{Short: &wmpt.PersistNodeShort{Key: []byte{1, 2}, Hash: bytes.Repeat([]byte{1}, 32), Value: blob}})
			run.feed("short value blob of length 0..80", b)
			b, _ = cbor.Marshal(&wmpt.PersistNodeBase{HashNode: &wmpt.PersistHashNode{Hash: blob, Weight: 3}})
			run.feed("hash node hash of length 0..80", b)
			b, _ = cbor.Marshal(&wmpt.PersistNodeBase{Value: &wmpt.PersistNodeValue{Value: blob, Hash: blob, Weight: uint64(l)}})
			run.feed("value node blobs of length 0..80", b)
		}
		for n := 0; n <= 20; n++ {
			ch := make([][]byte, n)
			for i := range ch {
				ch[i] = make([]byte, 40)
				binary.BigEndian.PutUint64(ch[i][32:], uint64(i+1))
			}
			b, _ := cbor.Marshal(&wmpt.PersistNodeBase{Branch: &wmpt.PersistNodeBranch{Hash: bytes.Repeat([]byte{1}, 32), Children: ch}})
			run.feed("branch array of 0..20 children", b)
		}
		for _, raw := range []string{"\xa1\x0a\xf6", "\xa1\x0b\xf6", "\xa1\x0c\xf6", "\xa1\x0d\xf6", "\xa1\x0e\xf6", "\xa0", "\xa1\x0a\x80", "\xa1\x0a\x82\x40\x81\xf6", "\xa1\x0c\x83\x40\x40\xf6", "\xa1\x0b\x83\xf6\xf6\x00",
			"\xa2\x0a\x82\x40\x80\x0c\x83\x40\x40\x40", "\xa1\x0a\x82\x40\x91" + "\x40\x40\x40\x40\x40\x40\x40\x40\x40\x40\x40\x40\x40\x40\x40\x40\x40"} {
			run.feed("crafted cbor", []byte(raw))
		}
	case tDeadNodes:
		// a real record written by RecordDeadNodes, then mutated
		disk := fmt.Sprintf("/verif-stub/C15/%d/%d/base", c.Seed, c.Idx)
		p, err := util.NewPNodeDB(disk, "")
		if err != nil {
			panic(err)
		}
		var dead []util.Node
		for i, enc := range cp.mptNodes {
			if n, nerr := util.CreateNode(bytes.NewReader(enc)); nerr == nil && i%2 == 0 {
				dead = append(dead, n)
			}
		}
		_ = p.RecordDeadNodes(dead, 1)
		p.Close()
		var base []byte
		for _, v := range grocksdb.Control(disk).Snapshot()["dead_nodes"] {
			base = v
		}
		grocksdb.DropDisk(disk)
		run.byteMutations(base, r, exhaustive)
		// well-formed msgpack records {"Nodes": {<key>: true, ...}} whose keys have every length 0..140, hex or not
		for l := 0; l <= 140; l++ {
			for _, fill := range []byte{'a', '7', 'g', 'A'} {
				rec := []byte{0x81, 0xa5, 'N', 'o', 'd', 'e', 's', 0x82}
				for _, key := range [][]byte{bytes.Repeat([]byte{fill}, l), bytes.Repeat([]byte("ab"), 32)} {
					if len(key) < 32 {
						rec = append(rec, 0xa0|byte(len(key)))
					} else {
						rec = append(rec, 0xd9, byte(len(key)))
					}
					rec = append(rec, key...)
					rec = append(rec, 0xc3)
				}
				run.feed("dead-node record with a key of length 0..140", rec)
			}
		}
		for k := 0; k < 300; k++ {
			b := make([]byte, r.Intn(60))
			r.Read(b)
			run.feed("random bytes", b)
			o := append([]byte(nil), base...)
			if len(o) > 4 {
				i := r.Intn(len(o) - 2)
				copy(o[i:], []byte{0xde, 0xff, 0xff}) // msgp map32 / huge length markers
				run.feed("msgp length inflated", o)
			}
		}
	case tDeserializeTrie, tVerifyProof:
		bases := cp.exports
		if target == tVerifyProof {
			bases = cp.proofs
		}
		for bi, base := range bases {
			if target == tVerifyProof {
				run.block = cp.proofBlks[bi]
			}
			run.byteMutations(base, r, exhaustive)
			// element-level edits: nil elements, dropped / duplicated / reordered pairs, elements from other structures
			pt := &wmpt.PersistTrie{}
			if cbor.Unmarshal(base, pt) != nil {
				continue
			}
			enc := func(p *wmpt.PersistTrie) []byte { b, _ := cbor.Marshal(p); return b }
			for i := range pt.Pairs {
				q := &wmpt.PersistTrie{Pairs: append([]*wmpt.PersistTriePair(nil), pt.Pairs...)}
				q.Pairs[i] = nil
				run.feed("nil element", enc(q))
				q = &wmpt.PersistTrie{Pairs: append([]*wmpt.PersistTriePair(nil), pt.Pairs...)}
				q.Pairs[i] = &wmpt.PersistTriePair{}
				run.feed("empty element", enc(q))
				q = &wmpt.PersistTrie{Pairs: append(append([]*wmpt.PersistTriePair(nil), pt.Pairs[:i]...), pt.Pairs[i+1:]...)}
				run.feed("element dropped", enc(q))
				q = &wmpt.PersistTrie{Pairs: append([]*wmpt.PersistTriePair(nil), pt.Pairs[:i+1]...)}
				run.feed("elements truncated", enc(q))
				for _, o := range cp.wmNodes {
					q = &wmpt.PersistTrie{Pairs: append([]*wmpt.PersistTriePair(nil), pt.Pairs...)}
					q.Pairs[i] = &wmpt.PersistTriePair{Value: o}
					run.feed("element replaced by another node", enc(q))
				}
				// a structural element sent twice in a row, with its hash field set to the hash of its own child reference, so
				// that the second copy passes for the child of the first; the rest is replaced by a bare hash reference (or kept)
				if sb := (&wmpt.PersistNodeBase{}); cbor.Unmarshal(pt.Pairs[i].Value, sb) == nil && (sb.Short != nil || sb.Branch != nil) {
					var ref []byte
					if sb.Short != nil {
						ref = sb.Short.Value
					} else {
						for _, ch := range sb.Branch.Children {
							if len(ch) >= 40 {
								ref = ch
								break
							}
						}
					}
					if len(ref) >= 40 {
						if sb.Short != nil {
							sb.Short.Hash = append([]byte(nil), ref[:32]...)
						} else {
							sb.Branch.Hash = append([]byte(nil), ref[:32]...)
						}
						twice, _ := cbor.Marshal(sb)
						hr, _ := cbor.Marshal(&wmpt.PersistNodeBase{HashNode: &wmpt.PersistHashNode{Hash: ref[:32], Weight: binary.BigEndian.Uint64(ref[32:40])}})
						head := append([]*wmpt.PersistTriePair(nil), pt.Pairs[:i]...)
						head = append(head, &wmpt.PersistTriePair{Value: twice}, &wmpt.PersistTriePair{Value: twice})
						run.feed("element repeated as its own child", enc(&wmpt.PersistTrie{Pairs: append(append([]*wmpt.PersistTriePair(nil), head...), &wmpt.PersistTriePair{Value: hr})}))
						run.feed("element repeated as its own child", enc(&wmpt.PersistTrie{Pairs: append(append([]*wmpt.PersistTriePair(nil), head...), pt.Pairs[i+1:]...)}))
						run.feed("element repeated as its own child", enc(&wmpt.PersistTrie{Pairs: append(append([]*wmpt.PersistTriePair(nil), head...), &wmpt.PersistTriePair{Value: twice}, &wmpt.PersistTriePair{Value: hr})}))
					}
				}
				// the element itself mutated at node level
				nb := &wmpt.PersistNodeBase{}
				if cbor.Unmarshal(pt.Pairs[i].Value, nb) == nil && nb.Branch != nil {
					for l := 0; l <= 80; l += 1 + r.Intn(3) {
						nb2 := &wmpt.PersistNodeBase{}
						_ = cbor.Unmarshal(pt.Pairs[i].Value, nb2)
						for ci := range nb2.Branch.Children {
							if len(nb2.Branch.Children[ci]) > 0 {
								blob := make([]byte, l)
								copy(blob, nb2.Branch.Children[ci])
								nb2.Branch.Children[ci] = blob
								break
							}
						}
						v, _ := cbor.Marshal(nb2)
						q = &wmpt.PersistTrie{Pairs: append([]*wmpt.PersistTriePair(nil), pt.Pairs...)}
						q.Pairs[i] = &wmpt.PersistTriePair{Value: v}
						run.feed("branch child blob resized inside an element", enc(q))
					}
					nb2 := &wmpt.PersistNodeBase{}
					_ = cbor.Unmarshal(pt.Pairs[i].Value, nb2)
					nb2.Branch.Children = append(nb2.Branch.Children, nb2.Branch.Children[0], nb2.Branch.Children[1])
					v, _ := cbor.Marshal(nb2)
					q = &wmpt.PersistTrie{Pairs: append([]*wmpt.PersistTriePair(nil), pt.Pairs...)}
					q.Pairs[i] = &wmpt.PersistTriePair{Value: v}
					run.feed("branch with 18 children inside an element", enc(q))
				}
			}
			if target == tVerifyProof {
				for _, blk := range []uint64{0, 1, 2, 1 << 40, ^uint64(0)} {
					run.block = blk
					run.feed("honest proof, other block numbers", base)
				}
			}
		}
		if target == tVerifyProof {
			// a proof that is nothing but one node of each kind (a bare value node first of all), for several block numbers
			for _, o := range cp.wmNodes {
				one, _ := cbor.Marshal(&wmpt.PersistTrie{Pairs: []*wmpt.PersistTriePair{{Value: o}}})
				for _, blk := range []uint64{0, 1, 2, 5, 1 << 40} {
					run.block = blk
					run.feed("proof of a single node", one)
				}
			}
			for _, w := range []uint64{1, 5} {
				vb, _ := cbor.Marshal(&wmpt.PersistNodeBase{Value: &wmpt.PersistNodeValue{Value: []byte("hi"), Hash: nil, Weight: w}})
				one, _ := cbor.Marshal(&wmpt.PersistTrie{Pairs: []*wmpt.PersistTriePair{{Value: vb}}})
				for _, blk := range []uint64{0, 1, w, w + 1} {
					run.block = blk
					run.feed("proof of a single hand-built value node", one)
				}
			}
		}
		for _, raw := range []string{"", "\x80", "\x81\xf6", "\x81\x80", "\x81\x81\xf6", "\x81\x81\x40", "\x81\x82\x81\x40\x81\x40", "\x9f\xff", "\x81\x9f\xff", "\x81\x81\x41\xa0", "\x81\x81\x43\xa1\x0d\xa0", "\x81\x81\x43\xa1\x0e\xf6"} {
			run.feed("crafted cbor", []byte(raw))
		}
		for k := 0; k < 200; k++ {
			b := make([]byte, r.Intn(60))
			r.Read(b)
			run.feed("random bytes", b)
		}
	}
	if c.Idx < 4 {
		s := map[string]any{"target": c15targets[target]}
		if len(cp.mptNodes) > 0 {
			s["a_base_state_trie_node_hex"] = fmt.Sprintf("%x", cp.mptNodes[0])
		}
		if len(cp.wmNodes) > 0 {
			s["a_base_weighted_node_hex"] = fmt.Sprintf("%x", cp.wmNodes[0])
		}
		c.Sample(s)
	}
}

func init() {
	fw.Register(&fw.Prop{
		ID:           "C15",
		EvalCounters: []string{"inputs"},
		Level:        "exploration",
		Rule: "(Every fourth state-trie node input is also planted as a stored record and read through PNodeDB.GetNode, alternately with the debug switch on. Every other path-export input is decoded by one long-lived trie object per worker, so that a decoder left locked or half-updated by a rejected input shows on the next one.) each case harvests real encodings at run time (state-trie nodes of a generated trie incl. a value node; weighted-trie nodes from a committed store, hash and nil nodes; GetPath exports for 0/1/3/12 keys; block proofs) and feeds one of five decoding entry points (case index mod 5; the fifth plants the bytes as a persisted dead-node record and runs the pruner over it) with derived inputs: " +
			"every truncation length (exhaustive for bases <= 512 bytes), every value 0..255 of the first byte, removal of each ':' separator, bit flips, byte inserts/deletes, CBOR head inflation to 1/2/4/8-byte lengths, field splicing between encodings, every type byte x crafted bodies (one separator, 15/16/17 separators, child hex of length 63/65/66, non-hex), " +
			"branch child hex strings of every length 0..140, CBOR child/value/hash blobs of every length 0..80, branch arrays of 0..20 children, nil / empty / dropped / duplicated / foreign elements in exports and proofs, hand-crafted CBOR (nil in place of structs, wrong arities, indefinite lengths), random bytes. " +
			"The input is written to disk before each call; a recovered panic, a fatal exit or a call that does not return for 60 s is a violation; accepted inputs are re-encoded (Encode/GetHashBytes/CloneNode; Serialize/Copy; Root/GetPath). distinct non-trivial = distinct (decoder, input bytes) pairs; inputs are also counted per mutator",
		Cases: func(tier string) int {
			if tier == "thorough" {
				return 16000
			}
			return 600
		},
		Run:          runC15,
		StallSeconds: 60,
		Floors: map[string]int64{"inputs_to_a_reused_trie_object": 100000, "stored_records_read_through_the_persistent_store": 100000, "inputs": 1000000, "accepted": 20000, "rejected": 500000, "inputs:util.CreateNode": 100000, "inputs:wmpt.DeserializeNode": 100000, "inputs:WeightedMerkleTrie.Deserialize": 100000, "inputs:WeightedMerkleTrie.VerifyBlockProof": 100000, "inputs:PNodeDB.PruneBelowVersion(dead-node record)": 30000,
			"mutator:truncation": 50000, "mutator:separator removed": 5000, "mutator:first byte 0..255": 100000, "mutator:cbor head inflated": 10000, "mutator:branch child blob of length 0..80": 1000, "mutator:branch array of 0..20 children": 1000, "mutator:nil element": 1000, "mutator:element repeated as its own child": 1000, "mutator:dead-node record with a key of length 0..140": 5000},
		Assumptions: []string{"inputs are near-valid derivations of real encodings plus random strings, at most 64 KiB; not all byte strings"},
	})
}
