package props

import (
	"bytes"
	"errors"
	"fmt"
	"os"
	"path/filepath"
	"strings"

	"github.com/0chain/common/core/util/storage"
	"github.com/0chain/common/core/util/storage/kv"
	"github.com/0chain/common/core/util/wmpt"
	"github.com/cockroachdb/pebble"

	"verif/harness/internal/fw"
	wl "verif/harness/internal/wmlab"
)

// C09 — weighted trie: total weight, block ownership and root follow content.

func verifRoot() string {
	if r := os.Getenv("VERIF_ROOT"); r != "" {
		return r
	}
	return "/verif"
}

func openPebble(c *fw.Ctx) (storage.StorageAdapter, func()) {
	dir := filepath.Join(verifRoot(), "work", c.Prop.ID, fmt.Sprintf("pebble-%d-%d", c.Seed, c.Idx))
	os.RemoveAll(dir)
	p, err := kv.NewPebbleAdapter(dir, &pebble.Options{Cache: pebble.NewCache(8 << 20)})
	if err != nil {
		panic(err)
	}
	return p, func() { p.Close(); os.RemoveAll(dir) }
}

func runC09(c *fw.Ctx) {
	r := c.Rng
	g := &wl.Gen{R: r}
	var db storage.StorageAdapter
	onPebble := c.Idx%50 == 7
	if onPebble {
		var cleanup func()
		db, cleanup = openPebble(c)
		defer cleanup()
		c.Tracef("store=pebble")
	} else {
		db = wl.NewMem()
	}
	t := wmpt.New(nil, db)
	m := wl.Model{}
	clean := true // no mutation since the last commit
	maxSteps := 30
	if !c.Quick() {
		maxSteps = 80
	}
	nsteps := 8 + r.Intn(maxSteps-7)
	fail := func(format string, a ...any) {
		c.Violate("", "%s\ntrace: %s", fmt.Sprintf(format, a...), strings.Join(c.Trace(), "; "))
	}
	afterCommitMutations := 0
	commits := 0
	var snap *wmpt.WeightedMerkleTrie // an isolated view taken with CopyRoot at a clean point; must keep answering for its own content
	var snapModel wl.Model
	earlier := map[string][]wl.Entry{} // values a key held before (for changing a value back)
	for step := 0; step < nsteps; step++ {
		keys := m.Keys()
		x := r.Intn(100)
		switch {
		case x < 36 || len(keys) == 0:
			k := g.Key(keys)
			v, w := g.Value()
			var err error
			if r.Intn(4) == 0 {
				c.Tracef("put %s=%s/%d", wl.KeyStr(k), v, w)
				err = t.Put(k, v, w)
				c.Count("puts", 1)
			} else {
				c.Tracef("upd %s=%s/%d", wl.KeyStr(k), v, w)
				err = wl.Upd(t, k, v, w)
			}
			if err != nil {
				fail("Update/Put failed: %v", err)
				return
			}
			m[string(k)] = wl.Entry{Val: v, W: w}
			if commits > 0 && clean {
				afterCommitMutations++
			}
			clean = false
		case x < 52:
			k := []byte(keys[r.Intn(len(keys))])
			v, w := g.Value()
			if r.Intn(4) == 0 {
				v, w = m[string(k)].Val, m[string(k)].W // unchanged re-write
			} else if e := earlier[string(k)]; len(e) > 0 && r.Intn(3) == 0 {
				v, w = e[r.Intn(len(e))].Val, 0 // change the value back to one the key held before
				w = wl.WeightOf(v)
				c.Count("values_changed_back", 1)
			}
			earlier[string(k)] = append(earlier[string(k)], m[string(k)])
			c.Tracef("overwrite %s=%s/%d", wl.KeyStr(k), v, w)
			if err := wl.Upd(t, k, v, w); err != nil {
				fail("Update (overwrite) failed: %v", err)
				return
			}
			if !bytes.Equal(v, m[string(k)].Val) {
				clean = false
				if commits > 0 {
					afterCommitMutations++
				}
			}
			m[string(k)] = wl.Entry{Val: v, W: w}
		case x < 68:
			k := []byte(keys[r.Intn(len(keys))])
			if r.Intn(4) == 0 {
				c.Tracef("Delete(%s)", wl.KeyStr(k))
				freed, err := t.Delete(k)
				if err != nil {
					fail("Delete of a live key failed: %v", err)
					return
				}
				if freed != m[string(k)].W {
					fail("Delete returned weight %d, the key's weight was %d", freed, m[string(k)].W)
					return
				}
				c.Count("deletes_via_Delete", 1)
			} else {
				c.Tracef("del %s", wl.KeyStr(k))
				if err := wl.Upd(t, k, nil, 0); err != nil {
					fail("delete of a live key failed: %v", err)
					return
				}
			}
			delete(m, string(k))
			clean = false
			if commits > 0 {
				afterCommitMutations++
			}
		case x < 73:
			k := g.Key(keys)
			if _, ok := m[string(k)]; ok {
				continue
			}
			c.Tracef("del-absent %s", wl.KeyStr(k))
			wBefore := t.Weight()
			err := wl.Upd(t, k, nil, 0)
			if err == nil {
				fail("delete of an absent key reported success")
				return
			}
			if !errors.Is(err, wmpt.ErrNotFound) {
				c.Count("delete_absent_other_error", 1)
			}
			if t.Weight() != wBefore {
				fail("failed delete of an absent key changed the total weight from %d to %d", wBefore, t.Weight())
				return
			}
			c.Count("delete_absent", 1)
		case x < 88:
			lvl := r.Intn(6)
			c.Tracef("commit(%d)", lvl)
			b, err := t.Commit(lvl)
			if err != nil {
				fail("Commit(%d) failed: %v", lvl, err)
				return
			}
			if err := b.Commit(true); err != nil {
				fail("batch commit failed: %v", err)
				return
			}
			clean = true
			commits++
			c.Count("commits", 1)
			if f := wl.CheckFull(t, m, true); f != "" {
				fail("after commit(%d): %s", lvl, f)
				return
			}
			c.Count("full_checks", 1)
			if snap != nil { // the earlier snapshot still answers for the content it was taken at
				if f := wl.CheckFull(snap, snapModel, true); f != "" {
					fail("a view taken earlier with CopyRoot no longer answers for its own content after the source trie moved on: %s", f)
					return
				}
				c.Count("snapshot_checks", 1)
				snap = nil
			} else if r.Intn(3) == 0 && !onPebble {
				snap = wmpt.New(t.CopyRoot(r.Intn(8)), db)
				snapModel = m.Copy()
				c.Tracef("snapshot view via CopyRoot")
				if r.Intn(2) == 0 && len(snapModel) > 0 {
					// the view is a fork: it is changed on its own (deletes that merge nodes, an overwrite); neither side may
					// notice the other's changes
					fk := snapModel.Keys()
					for i := 0; i < 1+r.Intn(2) && len(fk) > 0; i++ {
						k := fk[r.Intn(len(fk))]
						if _, ok := snapModel[k]; !ok {
							continue
						}
						c.Tracef("fork: del %s", wl.KeyStr([]byte(k)))
						if err := wl.Upd(snap, []byte(k), nil, 0); err != nil {
							fail("delete on a CopyRoot fork failed: %v", err)
							return
						}
						delete(snapModel, k)
					}
					if fk2 := snapModel.Keys(); len(fk2) > 0 {
						k := fk2[r.Intn(len(fk2))]
						v, w := g.Value()
						c.Tracef("fork: upd %s=%s/%d", wl.KeyStr([]byte(k)), v, w)
						if err := wl.Upd(snap, []byte(k), v, w); err != nil {
							fail("update on a CopyRoot fork failed: %v", err)
							return
						}
						snapModel[k] = wl.Entry{Val: v, W: w}
					}
					if f := wl.CheckFull(t, m, true); f != "" {
						fail("changes made on a CopyRoot fork show in the trie it was taken from: %s", f)
						return
					}
					c.Count("forks_changed_on_their_own", 1)
				}
			}
		case x < 93:
			if !clean {
				continue
			}
			c.Tracef("gc")
			if err := t.DeleteNodes(); err != nil {
				fail("DeleteNodes failed: %v", err)
				return
			}
			c.Count("gc_passes", 1)
			if f := wl.CheckFull(t, m, true); f != "" {
				fail("after a garbage-collection pass on a clean trie: %s", f)
				return
			}
		default:
			if !clean {
				continue
			}
			wr, ww := m.Ref()
			if r.Intn(3) == 0 {
				lvl := r.Intn(5)
				c.Tracef("reload via CopyRoot(%d)", lvl)
				t = wmpt.New(t.CopyRoot(lvl), db)
				c.Count("reloads_via_CopyRoot", 1)
			} else {
				c.Tracef("reload")
				t = wl.Reopen(wr, ww, db)
			}
			c.Count("reloads", 1)
			if f := wl.CheckFull(t, m, true); f != "" {
				fail("after reload from (root, weight): %s", f)
				return
			}
		}
		if ww := m.Weight(); t.Weight() != ww {
			fail("Weight() = %d, sum of live weights = %d", t.Weight(), ww)
			return
		}
		c.Count("steps", 1)
	}
	c.Count("histories", 1)
	c.Count("mutations_after_a_commit", int64(afterCommitMutations))
	c.Max("total_weight", int64(m.Weight()))
	if onPebble {
		c.Count("histories_on_pebble", 1)
	}
	if afterCommitMutations > 0 {
		c.NonTrivial(fw.Hash64(strings.Join(c.Trace(), ";")))
	}
	if c.Idx < 3 {
		c.Sample(map[string]any{"history": c.Trace()})
	}
}

func init() {
	fw.Register(&fw.Prop{
		ID:    "C09",
		Level: "exploration",
		Rule: "seeded histories of 8..30 (quick) / 8..80 (thorough) steps over 32-byte keys that copy a random-length nibble prefix (0..63) of an existing key: update (Update or Put), overwrite (new value, unchanged value, or back to a value the key held before), delete of live and absent keys (Update with empty value or Delete, whose returned weight is checked), Commit(level 0..5)+batch commit, " +
			"garbage-collection pass and reload (from (root hash, weight), or a new trie over CopyRoot(level)) at clean points; every 50th history on real pebble; after a third of the commits an isolated view of the trie is taken with CopyRoot(level) and must still answer (weight, root, every block) for its own content after the source trie has been mutated and committed again. Weight is a fixed function of the value. After every step Weight() == sum of live weights; after every commit, GC pass and reload: Root() == independent reference root from the sorted live set, " +
			"for EVERY block 1..W the key named by GetBlockProof is the model owner and the proof verifies to the reference root with the owner's value, block W+1 is refused. non-trivial = history that mutates a key after a commit (its subtree is then a hash reference); distinct by trace hash",
		Cases: func(tier string) int {
			if tier == "thorough" {
				return 400000
			}
			return 16000
		},
		Run:    runC09,
		Floors: map[string]int64{"forks_changed_on_their_own": 1500, "histories": 15000, "steps": 200000, "commits": 20000, "full_checks": 20000, "gc_passes": 2000, "reloads": 2500, "mutations_after_a_commit": 30000, "delete_absent": 3000, "histories_on_pebble": 100, "puts": 10000, "deletes_via_Delete": 3000, "reloads_via_CopyRoot": 500, "snapshot_checks": 2000, "values_changed_back": 2000},
		Assumptions: []string{
			"weight is a function of the value (the property's domain)",
			"garbage collection and reload are only issued when the live trie has no uncommitted mutation (GC on a dirty trie belongs to C11)",
		},
	})
}
