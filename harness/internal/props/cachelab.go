package props

import (
	"bytes"
	"fmt"
	"math/rand"
	"sort"
	"strings"

	"github.com/0chain/common/core/statecache"
	"github.com/0chain/common/core/util"

	"verif/harness/internal/fw"
)

// Block-tree oracle for the state cache (C06, C07, C08).
//
// The harness keeps its own block tree: per block its parent and, once committed, the key -> value|tombstone map it
// committed; per open block the pre-commit map; per open transaction its own map. The answer for (key, context) is
// found by walking the model's ancestor chain with no depth or capacity limit. A cache answer is legal iff it is a
// miss or exactly the model's value; a removed / never written key may only miss.

type cval struct {
	tomb bool
	tok  string // logical content
}

type cblock struct {
	hash, prev string
	round      int64
	committed  bool
	writes     map[string]cval // committed content
	pre        map[string]cval // pre-commit content of the open block cache
	bc         *statecache.BlockCache
	depth      int
	lateHash   bool            // the block cache was created without a hash; SetBlockHash is called right before the commit
	late       map[string]cval // written into the block cache object AFTER the block was committed: private to that object for good
}

type ctxn struct {
	blk  *cblock
	tc   *statecache.TransactionCache
	w    map[string]cval
	done bool
	name string
}

type cworld struct {
	sc            *statecache.StateCache
	blocks        map[string]*cblock
	order         []*cblock
	txns          []*ctxn
	seq           int
	mutable       bool // C07: mutable value types, scribbled after set and after get
	r             *rand.Rand
	perKey        map[string]map[string]bool // key -> block hashes the cache has been given an entry for (commits + memoising lookups)
	commits       int
	keyNames      []string
	evicted       map[string]bool  // keys whose version map was dropped through StateCache.Remove: no must-hit afterwards
	usedLeaves    []*util.LeafNode // leaf objects handed to the cache earlier (C07): re-used with a payload edited in place
	reusedObjects int
	views         map[string]*statecache.QueryBlockCache // views on blocks opened by earlier lookups
}

func newWorld(r *rand.Rand, nkeys int, mutable bool) *cworld {
	w := &cworld{sc: statecache.NewStateCache(), blocks: map[string]*cblock{}, r: r, mutable: mutable, perKey: map[string]map[string]bool{}, evicted: map[string]bool{}}
	for i := 0; i < nkeys; i++ {
		w.keyNames = append(w.keyNames, fmt.Sprintf("k%d", i))
	}
	return w
}

// ---- values ----

type MutVal struct{ B []byte }

func (m *MutVal) Clone() statecache.Value     { return &MutVal{append([]byte(nil), m.B...)} }
func (m *MutVal) CopyFrom(v interface{}) bool { return false }

func (w *cworld) mkValue(tok string) statecache.Value {
	if !w.mutable {
		return statecache.String(tok)
	}
	switch w.r.Intn(5) {
	case 0:
		ln := util.NewLeafNode(util.Path("ab"), util.Path("cdef"), 3, &util.SecureSerializableValue{Buffer: []byte(tok + ":bal:100:" + tok)}) // payload with the node encoding's separator byte
		// a node re-marked by a later round (the pruning sweep does this): version and origin differ
		ln.SetVersion(3 + util.Sequence(fw.Hash64(tok)%4))
		return ln
	case 1:
		fn := util.NewFullNode(&util.SecureSerializableValue{Buffer: []byte(tok)})
		fn.PutChild('a', bytes.Repeat([]byte{1}, 32))
		fn.PutChild('3', bytes.Repeat([]byte{2}, 32))
		fn.SetOrigin(4)
		fn.SetVersion(4 + util.Sequence(fw.Hash64(tok)%3))
		return fn
	case 2:
		h := fw.Hash64(tok)
		key := bytes.Repeat([]byte{byte(h)}, 32)
		copy(key, []byte(tok))
		en := util.NewExtensionNode(util.Path("abc"+fmt.Sprintf("%x", h&0xfff)), key)
		en.SetOrigin(5)
		en.SetVersion(5 + util.Sequence(h%3))
		return en
	case 3:
		vn := util.NewValueNode()
		vn.SetValue(&util.SecureSerializableValue{Buffer: []byte(tok)})
		return vn
	default:
		return &MutVal{[]byte(tok)}
	}
}

// content is the logical content of a value (what must be preserved).
func content(v statecache.Value) string {
	switch x := v.(type) {
	case statecache.String:
		return string(x)
	case *MutVal:
		return "mut:" + string(x.B)
	case util.Node:
		return fmt.Sprintf("node:%x", x.Encode())
	case nil:
		return "<nil>"
	}
	return fmt.Sprintf("?%T", v)
}

// scribble overwrites every mutable part of a value in place.
func scribble(v statecache.Value) {
	switch x := v.(type) {
	case *MutVal:
		for i := range x.B {
			x.B[i] = 'X'
		}
	case *util.LeafNode:
		for i := range x.Path {
			x.Path[i] = 'f'
		}
		for i := range x.Prefix {
			x.Prefix[i] = 'f'
		}
		if sv, ok := x.GetValue().(*util.SecureSerializableValue); ok {
			for i := range sv.Buffer {
				sv.Buffer[i] = 'X'
			}
		}
		x.SetValue(&util.SecureSerializableValue{Buffer: []byte("SCRIBBLE")})
		x.SetOrigin(999)
	case *util.FullNode:
		for i := range x.Children {
			for j := range x.Children[i] {
				x.Children[i][j] = 0xEE
			}
		}
		if sv, ok := x.GetValue().(*util.SecureSerializableValue); ok {
			for i := range sv.Buffer {
				sv.Buffer[i] = 'X'
			}
		}
		x.SetValue(&util.SecureSerializableValue{Buffer: []byte("SCRIBBLE")})
		x.SetOrigin(998)
	case *util.ExtensionNode:
		for i := range x.Path {
			x.Path[i] = 'f'
		}
		for i := range x.NodeKey {
			x.NodeKey[i] = 0xEE
		}
		x.SetOrigin(997)
	case *util.ValueNode:
		if sv, ok := x.GetValue().(*util.SecureSerializableValue); ok {
			for i := range sv.Buffer {
				sv.Buffer[i] = 'X'
			}
		}
		x.SetValue(&util.SecureSerializableValue{Buffer: []byte("SCRIBBLE")})
	}
}

// ---- model ----

// truth returns the value visible for key at block h through committed blocks only (uncommitted blocks on the chain are
// skipped: their writes are private); found=false means only a miss is legal. sure reports whether a correct cache
// within capacity must hit: every block between h and the deciding write is committed (links exist).
func (w *cworld) truth(key, h string) (tok string, found bool, sure bool, depth int) {
	sure = true
	for cur := h; cur != ""; {
		b := w.blocks[cur]
		if b == nil {
			return "", false, false, depth
		}
		if b.committed {
			if v, ok := b.writes[key]; ok {
				if v.tomb {
					return "", false, false, depth
				}
				return v.tok, true, sure, depth
			}
		} else {
			sure = false
		}
		cur = b.prev
		depth++
	}
	return "", false, false, depth
}

func (w *cworld) truthBlockCtx(key string, b *cblock) (string, bool, bool) {
	if v, ok := b.pre[key]; ok {
		if v.tomb {
			return "", false, false
		}
		return v.tok, true, true
	}
	tok, found, sure, _ := w.truth(key, b.prev)
	return tok, found, sure
}

func (w *cworld) truthTxnCtx(key string, t *ctxn) (string, bool, bool) {
	if v, ok := t.w[key]; ok {
		if v.tomb {
			return "", false, false
		}
		return v.tok, true, true
	}
	return w.truthBlockCtx(key, t.blk)
}

// noteLookup records the entry a lookup at hash would memoise: the cache adds one only when it walked back through
// committed links to an entry (value or tombstone) held by an ancestor.
func (w *cworld) noteLookup(key, hash string) {
	depth := 0
	for cur := hash; cur != ""; depth++ {
		b := w.blocks[cur]
		if b == nil || !b.committed {
			return
		}
		if _, ok := b.writes[key]; ok {
			if depth > 0 {
				w.noteEntry(key, hash)
			}
			return
		}
		cur = b.prev
	}
}

func (w *cworld) noteEntry(key, hash string) {
	m := w.perKey[key]
	if m == nil {
		m = map[string]bool{}
		w.perKey[key] = m
	}
	m[hash] = true
}

// withinCapacity: every "must hit" assertion is only made an order of magnitude below the cache's capacities
// (per-key version map 200, link history 2000, keys 100K).
func (w *cworld) withinCapacity(key string, depth int) bool {
	return len(w.perKey[key]) < 100 && w.commits < 1000 && depth < 1000 && !w.evicted[key]
}

// judge compares a lookup result with the model. where names the lookup; mustHit demands a hit.
func (w *cworld) judge(c *fw.Ctx, where, key string, got statecache.Value, ok bool, tok string, found, mustHit bool, overflowSig string) bool {
	c.Count("lookups", 1)
	if mustHit && found {
		c.Count("must_hit_assertions", 1)
	}
	if ok {
		c.Count("hits", 1)
		g := content(got)
		if w.mutable {
			scribble(got)
		}
		if !found {
			c.Violate(overflowSig, "%s: hit %q for key %s, but along that context's chain the key is removed or was never written (only a miss is legal)", where, g, key)
			return false
		}
		if g != w.wantContent(tok) {
			c.Violate(overflowSig, "%s: hit %q for key %s, the value determined by the block tree is %q", where, g, key, w.wantContent(tok))
			return false
		}
		return true
	}
	c.Count("misses", 1)
	if mustHit && found {
		c.Violate("", "%s: miss for key %s, but %q was committed on that context's chain, every link is committed and the workload is far below every cache capacity", where, key, tok)
		return false
	}
	return true
}

// wantContent maps a token to the content string its value object has.
func (w *cworld) wantContent(tok string) string {
	return tok[strings.Index(tok, "|")+1:]
}

// token: we store "<kind-independent id>|<content string>" so that the expected content survives scribbling.
func (w *cworld) newToken(b *cblock, key string) (tok string, val statecache.Value) {
	w.seq++
	id := fmt.Sprintf("%s#%d/%s", b.hash, w.seq, key)
	if w.mutable && len(w.usedLeaves) > 0 && w.r.Intn(8) == 0 {
		// a node object that was handed to the cache before (and has been encoded / hashed by it) is given a new payload by
		// editing its value object in place, and is handed in again: what the cache keeps must be the new payload. The
		// expected content comes from an equivalent node built from scratch.
		x := w.usedLeaves[w.r.Intn(len(w.usedLeaves))]
		_ = x.GetHashBytes() // the caller looked at the node's hash / encoding in its current state first
		_ = x.Encode()
		payload := []byte(id + ":reused:")
		if sv, ok := x.GetValue().(*util.SecureSerializableValue); ok {
			sv.Buffer = payload
			fresh := util.NewLeafNode(append(util.Path(nil), x.Prefix...), append(util.Path(nil), x.Path...), x.GetOrigin(), &util.SecureSerializableValue{Buffer: append([]byte(nil), payload...)})
			fresh.SetVersion(x.GetVersion())
			w.reusedObjects++
			return id + "|" + content(fresh), x
		}
	}
	val = w.mkValue(id)
	if ln, ok := val.(*util.LeafNode); ok && len(w.usedLeaves) < 32 {
		w.usedLeaves = append(w.usedLeaves, ln)
	}
	return id + "|" + content(val), val
}

func (w *cworld) overflowSig(key string) string {
	if len(w.perKey[key]) > 200 {
		return "per-key-version-overflow"
	}
	return ""
}

// ---- operations (each records into the trace and updates the model) ----

func (w *cworld) newBlock(c *fw.Ctx, hash, prev string) *cblock {
	b := &cblock{hash: hash, prev: prev, writes: map[string]cval{}, pre: map[string]cval{}}
	if p := w.blocks[prev]; p != nil {
		b.depth = p.depth + 1
		b.round = p.round + 1
	}
	if w.r.Intn(8) == 0 { // generator-style usage: the hash is only known after the block has been executed
		b.lateHash = true
		b.bc = statecache.NewBlockCache(w.sc, statecache.Block{Round: b.round, Hash: "", PrevHash: prev})
	} else {
		b.bc = statecache.NewBlockCache(w.sc, statecache.Block{Round: b.round, Hash: hash, PrevHash: prev})
	}
	w.blocks[hash] = b
	w.order = append(w.order, b)
	c.Tracef("block %s<-%s", hash, prev)
	return b
}

func (w *cworld) newTxn(c *fw.Ctx, b *cblock) *ctxn {
	t := &ctxn{blk: b, tc: statecache.NewTransactionCache(b.bc), w: map[string]cval{}, name: fmt.Sprintf("%s.t%d", b.hash, len(w.txns))}
	w.txns = append(w.txns, t)
	c.Tracef("txn %s", t.name)
	return t
}

func (w *cworld) txnSet(c *fw.Ctx, t *ctxn, key string) {
	tok, val := w.newToken(t.blk, key)
	c.Tracef("%s set %s", t.name, key)
	t.tc.Set(key, val)
	if w.mutable {
		scribble(val)
	}
	t.w[key] = cval{tok: tok}
}

func (w *cworld) txnRemove(c *fw.Ctx, t *ctxn, key string) {
	c.Tracef("%s remove %s", t.name, key)
	t.tc.Remove(key)
	t.w[key] = cval{tomb: true}
}

func (w *cworld) txnCommit(c *fw.Ctx, t *ctxn) {
	c.Tracef("%s commit", t.name)
	t.tc.Commit()
	for k, v := range t.w {
		t.blk.pre[k] = v
	}
	t.w = map[string]cval{}
}

func (w *cworld) blockSet(c *fw.Ctx, b *cblock, key string) {
	tok, val := w.newToken(b, key)
	c.Tracef("%s set %s (block cache)", b.hash, key)
	b.bc.Set(key, val)
	if w.mutable {
		scribble(val)
	}
	b.pre[key] = cval{tok: tok}
}

func (w *cworld) blockCommit(c *fw.Ctx, b *cblock) {
	c.Tracef("%s commit", b.hash)
	if b.lateHash {
		b.bc.SetBlockHash(b.hash)
		c.Count("late_block_hashes", 1)
	}
	b.bc.Commit()
	b.committed = true
	for k, v := range b.pre {
		b.writes[k] = v
		w.noteEntry(k, b.hash)
	}
	b.pre = map[string]cval{}
	w.commits++
	for _, t := range w.txns {
		if t.blk == b {
			t.done = true
		}
	}
}

// recommit executes the same block hash again through a second block cache with different writes and commits it:
// a block that is already committed must be ignored, the first commit's content stays.
func (w *cworld) recommit(c *fw.Ctx, b *cblock) {
	c.Tracef("%s committed a second time (different writes; must be ignored)", b.hash)
	bc2 := statecache.NewBlockCache(w.sc, statecache.Block{Round: b.round, Hash: b.hash, PrevHash: b.prev})
	own := map[string]string{}
	for _, k := range w.keyNames {
		if w.r.Intn(2) == 0 {
			tok, val := w.newToken(b, k)
			bc2.Set(k, val)
			if w.mutable {
				scribble(val)
			}
			own[k] = tok
		}
	}
	bc2.Commit()
	// the refused duplicate keeps what was written into it: lookups through it see its own writes first
	for _, k := range w.keyNames {
		if tok, ok := own[k]; ok {
			got, hit := bc2.Get(k)
			if !w.judge(c, fmt.Sprintf("BlockCache(%s, refused duplicate commit).Get(%s)", b.hash, k), k, got, hit, tok, true, true, "") {
				return
			}
		}
	}
	c.Count("duplicate_commits", 1)
}

// lateWrite writes into the block cache object of a block that has been committed already (directly or through a
// transaction commit that comes late): the write stays private to that object - lookups through it and through its
// transaction caches see it first, lookups at the block's hash keep seeing what was committed.
func (w *cworld) lateWrite(c *fw.Ctx, b *cblock, key string, viaTxn bool) {
	if b.late == nil {
		b.late = map[string]cval{}
	}
	defer func() {
		// a second Commit of the same (already committed) block cache changes nothing anywhere: the late entries stay in the
		// object, the state cache keeps what was committed
		if w.r.Intn(3) == 0 {
			b.bc.Commit()
			c.Tracef("%s: Commit() again on the committed block cache (must be ignored)", b.hash)
			c.Count("repeated_commits_of_a_committed_block_cache", 1)
		}
	}()
	if viaTxn && w.r.Intn(3) == 0 { // a late transaction removes the key
		tc := statecache.NewTransactionCache(b.bc)
		tc.Remove(key)
		tc.Commit()
		c.Tracef("%s (committed): late transaction removes %s and commits into the block cache", b.hash, key)
		b.late[key] = cval{tomb: true}
		c.Count("late_writes_into_committed_block_caches", 1)
		c.Count("late_removals_into_committed_block_caches", 1)
		return
	}
	tok, val := w.newToken(b, key)
	if viaTxn {
		tc := statecache.NewTransactionCache(b.bc)
		tc.Set(key, val)
		if w.mutable {
			scribble(val)
		}
		tc.Commit()
		c.Tracef("%s (committed): late transaction sets %s and commits into the block cache", b.hash, key)
	} else {
		b.bc.Set(key, val)
		if w.mutable {
			scribble(val)
		}
		c.Tracef("%s (committed): late set %s (block cache)", b.hash, key)
	}
	b.late[key] = cval{tok: tok}
	c.Count("late_writes_into_committed_block_caches", 1)
}

// lookups

func (w *cworld) getState(c *fw.Ctx, key, hash string, query bool) bool {
	tok, found, sure, depth := w.truth(key, hash)
	sig := w.overflowSig(key)
	var got statecache.Value
	var ok bool
	if query {
		// a view on a block is a window, not a snapshot: half of the lookups go through a view that was opened earlier
		// (possibly before the block or its ancestors were committed) and has answered before
		if w.views == nil {
			w.views = map[string]*statecache.QueryBlockCache{}
		}
		qv := w.views[hash]
		if qv == nil || w.r.Intn(2) == 0 {
			qv = statecache.NewQueryBlockCache(w.sc, hash)
			w.views[hash] = qv
		} else {
			c.Count("lookups_through_a_view_opened_earlier", 1)
		}
		got, ok = qv.Get(key)
	} else {
		got, ok = w.sc.Get(key, hash)
	}
	w.noteLookup(key, hash)
	c.Tracef("get %s@%s -> %v", key, hash, ok)
	must := w.mutable && sure && w.withinCapacity(key, depth)
	return w.judge(c, fmt.Sprintf("StateCache.Get(%s, block %s)", key, hash), key, got, ok, tok, found, must, sig)
}

func (w *cworld) getBlockCtx(c *fw.Ctx, key string, b *cblock) bool {
	if b.committed {
		// the block cache object of a committed block is still a lookup context of that block: own (now committed)
		// writes first, then the ancestors
		if v, late := b.late[key]; late {
			got, ok := b.bc.Get(key)
			c.Tracef("get %s in block cache %s (committed, late write) -> %v", key, b.hash, ok)
			return w.judge(c, fmt.Sprintf("BlockCache(%s, committed, written again afterwards).Get(%s)", b.hash, key), key, got, ok, v.tok, !v.tomb, !v.tomb, "")
		}
		tok, found, sure, depth := w.truth(key, b.hash)
		sig := w.overflowSig(key)
		got, ok := b.bc.Get(key)
		w.noteLookup(key, b.hash)
		c.Tracef("get %s in block cache %s (committed) -> %v", key, b.hash, ok)
		c.Count("lookups_through_caches_of_committed_blocks", 1)
		must := w.mutable && sure && w.withinCapacity(key, depth)
		return w.judge(c, fmt.Sprintf("BlockCache(%s, committed).Get(%s)", b.hash, key), key, got, ok, tok, found, must, sig)
	}
	tok, found, sure := w.truthBlockCtx(key, b)
	_, own := b.pre[key]
	sig := w.overflowSig(key)
	got, ok := b.bc.Get(key)
	if !own {
		w.noteLookup(key, b.prev)
	}
	c.Tracef("get %s in block cache %s -> %v", key, b.hash, ok)
	must := (own && found) || (w.mutable && sure && w.withinCapacity(key, 0))
	return w.judge(c, fmt.Sprintf("BlockCache(%s).Get(%s)", b.hash, key), key, got, ok, tok, found, must, sig)
}

func (w *cworld) getTxnCtx(c *fw.Ctx, key string, t *ctxn) bool {
	if t.blk.committed {
		if v, own := t.w[key]; own { // a transaction that never committed still sees its own writes first
			got, ok := t.tc.Get(key)
			c.Tracef("get %s in txn cache %s (block committed, own write) -> %v", key, t.name, ok)
			return w.judge(c, fmt.Sprintf("TransactionCache(%s, block committed).Get(%s)", t.name, key), key, got, ok, v.tok, !v.tomb, !v.tomb, w.overflowSig(key))
		}
		if v, late := t.blk.late[key]; late {
			got, ok := t.tc.Get(key)
			return w.judge(c, fmt.Sprintf("TransactionCache(%s, block committed and written again afterwards).Get(%s)", t.name, key), key, got, ok, v.tok, !v.tomb, !v.tomb, "")
		}
		tok, found, sure, depth := w.truth(key, t.blk.hash)
		sig := w.overflowSig(key)
		got, ok := t.tc.Get(key)
		w.noteLookup(key, t.blk.hash)
		c.Tracef("get %s in txn cache %s (block committed) -> %v", key, t.name, ok)
		c.Count("lookups_through_caches_of_committed_blocks", 1)
		must := w.mutable && sure && w.withinCapacity(key, depth)
		return w.judge(c, fmt.Sprintf("TransactionCache(%s, block committed).Get(%s)", t.name, key), key, got, ok, tok, found, must, sig)
	}
	tok, found, sure := w.truthTxnCtx(key, t)
	_, own := t.w[key]
	_, ownB := t.blk.pre[key]
	sig := w.overflowSig(key)
	got, ok := t.tc.Get(key)
	if !own && !ownB {
		w.noteLookup(key, t.blk.prev)
	}
	c.Tracef("get %s in txn cache %s -> %v", key, t.name, ok)
	must := ((own || ownB) && found) || (w.mutable && sure && w.withinCapacity(key, 0))
	return w.judge(c, fmt.Sprintf("TransactionCache(%s).Get(%s)", t.name, key), key, got, ok, tok, found, must, sig)
}

func (w *cworld) openBlocks() []*cblock {
	var o []*cblock
	for _, b := range w.order {
		if !b.committed {
			o = append(o, b)
		}
	}
	return o
}

func (w *cworld) liveTxns() []*ctxn {
	var o []*ctxn
	for _, t := range w.txns {
		if !t.done && !t.blk.committed {
			o = append(o, t)
		}
	}
	return o
}

func (w *cworld) sweep(c *fw.Ctx) bool {
	hashes := make([]string, 0, len(w.blocks))
	for h := range w.blocks {
		hashes = append(hashes, h)
	}
	sort.Strings(hashes)
	for _, h := range hashes {
		for _, k := range w.keyNames {
			if !w.getState(c, k, h, false) {
				return false
			}
		}
	}
	return true
}
