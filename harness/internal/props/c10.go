package props

import (
	"bytes"
	"encoding/binary"
	"fmt"
	"math/rand"

	"github.com/0chain/common/core/util/wmpt"
	"github.com/fxamacker/cbor/v2"

	"verif/harness/internal/fw"
	wl "verif/harness/internal/wmlab"
)

// C10 — block proofs verify for the honest trie and cannot be forged.

func decProof(p []byte) []*wmpt.PersistNodeBase {
	pt := &wmpt.PersistTrie{}
	if err := cbor.Unmarshal(p, pt); err != nil {
		return nil
	}
	var out []*wmpt.PersistNodeBase
	for _, pr := range pt.Pairs {
		n := &wmpt.PersistNodeBase{}
		if pr == nil || cbor.Unmarshal(pr.Value, n) != nil {
			return nil
		}
		out = append(out, n)
	}
	return out
}

func encProof(ns []*wmpt.PersistNodeBase) []byte {
	pt := &wmpt.PersistTrie{}
	for _, n := range ns {
		b, _ := cbor.Marshal(n)
		pt.Pairs = append(pt.Pairs, &wmpt.PersistTriePair{Value: b})
	}
	b, _ := cbor.Marshal(pt)
	return b
}

func cloneNodes(ns []*wmpt.PersistNodeBase) []*wmpt.PersistNodeBase {
	return decProof(encProof(ns))
}

func childWeight(c []byte) uint64       { return binary.BigEndian.Uint64(c[32:40]) }
func setChildWeight(c []byte, w uint64) { binary.BigEndian.PutUint64(c[32:40], w) }

// normalise zeroes every claimed child weight in branches, so that two nodes that differ only there compare equal.
func normalise(n *wmpt.PersistNodeBase) ([]byte, uint64) {
	b, _ := cbor.Marshal(n)
	m := &wmpt.PersistNodeBase{}
	_ = cbor.Unmarshal(b, m)
	var sum uint64
	if m.Branch != nil {
		for _, c := range m.Branch.Children {
			if len(c) >= 40 {
				sum += childWeight(c)
				setChildWeight(c, 0)
			}
		}
	}
	out, _ := cbor.Marshal(m)
	return out, sum
}

// isSumPreservingReweight: the forged proof differs from honest proof elements of the same trie only in the 8-byte
// claimed weights of branch children, with every branch's sum unchanged.
func isSumPreservingReweight(forged []byte, honest [][]byte) bool {
	fn := decProof(forged)
	if fn == nil {
		return false
	}
	type key struct {
		depth int
		norm  string
		sum   uint64
	}
	have := map[key]bool{}
	exact := map[string]bool{}
	for _, h := range honest {
		for d, n := range decProof(h) {
			nb, s := normalise(n)
			have[key{d, string(nb), s}] = true
			eb, _ := cbor.Marshal(n)
			exact[fmt.Sprint(d, string(eb))] = true
		}
	}
	changed := false
	for d, n := range fn {
		nb, s := normalise(n)
		if !have[key{d, string(nb), s}] {
			return false
		}
		eb, _ := cbor.Marshal(n)
		if !exact[fmt.Sprint(d, string(eb))] {
			changed = true
		}
	}
	return changed
}

type c10case struct {
	base   []byte // for a forgery derived from another one: the forgery it was derived from (nil otherwise)
	c      *fw.Ctx
	root   []byte
	model  wl.Model
	honest [][]byte // honest proof per block (index b-1)
	desc   string
	// one verifier object per case that receives every other submission
	ver       *wmpt.WeightedMerkleTrie
	nver      int
	useShared bool
}

// try submits a forged proof for block b; a forgery is a violation iff verification returns no error, the trusted
// root and a value different from the true owner's value.
func (k *c10case) try(class string, b uint64, forged []byte) {
	c := k.c
	c.Count("tamperings", 1)
	c.Count("tamper:"+class, 1)
	c.Distinct("nontrivial", fw.Hash64(k.root, b, class))
	owner, _ := k.model.Owner(b)
	trueVal := k.model[owner].Val
	var h, val []byte
	var err error
	func() {
		defer func() {
			if r := recover(); r != nil {
				err = fmt.Errorf("panic: %v", r) // a panic on a forged proof is C15's business; here it is a rejection
				c.Count("verify_panics_on_forged_proofs", 1)
			}
		}()
		// every other submission goes to one verifier object that lives as long as the case (a light client keeps its
		// verifier): what it accepted or rejected before has no bearing on the next answer
		ver := wmpt.New(nil, nil)
		if k.nver++; k.nver%2 == 0 || k.useShared {
			if k.ver == nil {
				k.ver = wmpt.New(nil, nil)
			}
			ver = k.ver
			c.Count("submissions_to_a_long_lived_verifier", 1)
		}
		k.useShared = false
		h, val, err = ver.VerifyBlockProof(b, forged)
	}()
	if err != nil {
		c.Count("rejected_with_error", 1)
		return
	}
	if !bytes.Equal(h, k.root) {
		c.Count("rejected_other_root", 1)
		return
	}
	if bytes.Equal(val, trueVal) {
		c.Count("accepted_true_value", 1)
		return
	}
	sig := ""
	if isSumPreservingReweight(forged, k.honest) {
		sig = "reweight-sum-preserving"
	} else if k.base != nil && isSumPreservingReweight(k.base, k.honest) {
		// the forgery is a known-finding forgery plus further edits: it belongs to the known finding only if those edits are
		// not what makes it pass, i.e. the forgery without them verifies to the same root with the same value
		if h2, v2, e2 := wmpt.New(nil, nil).VerifyBlockProof(b, k.base); e2 == nil && bytes.Equal(h2, k.root) && bytes.Equal(v2, val) {
			sig = "reweight-sum-preserving"
		}
	}
	c.Violate(sig, "forged proof (class %s) for block %d verifies to the trusted root %x with value %q, the block's true owner %x holds %q; %s; forged proof: %x",
		class, b, k.root, val, owner, trueVal, k.desc, forged)
}

func runC10(c *fw.Ctx) {
	r := c.Rng
	g := &wl.Gen{R: r}
	db := wl.NewMem()
	t := wmpt.New(nil, db)
	m := wl.Model{}
	n := 2 + r.Intn(9)
	var deep [][]byte
	if c.Idx == 3 {
		// the deepest possible path: a key and 64 neighbours, the i-th sharing exactly i leading nibbles with it - its honest
		// proof has a branch at every nibble plus the leaf (65 elements)
		base := g.Key(nil)
		deep = append(deep, base)
		for i := 0; i < 64; i++ {
			nb := append([]byte(nil), base...)
			if i%2 == 0 {
				nb[i/2] ^= 0x10 << uint(r.Intn(3)) // differs in the high nibble of byte i/2
				nb[i/2] ^= 0                       // low nibble and the rest may stay: the first difference decides
			} else {
				nb[i/2] ^= 0x01 << uint(r.Intn(3))
			}
			deep = append(deep, nb)
		}
		n = len(deep)
		c.Count("deepest_path_tries", 1)
	}
	for i := 0; i < n; i++ {
		k := g.Key(m.Keys())
		if deep != nil {
			k = deep[i]
		}
		v, w := g.Value()
		if err := wl.Upd(t, k, v, w); err != nil {
			c.Violate("", "Update failed: %v", err)
			return
		}
		m[string(k)] = wl.Entry{Val: v, W: w}
	}
	// hash once, then replace some values by different values of exactly the same weight: every ancestor hash must follow
	if b0, err := t.Commit(1 + r.Intn(5)); err == nil { // a first commit makes every node clean (and collapses deep subtrees)
		_ = b0.Commit(true)
	}
	// a third of the tries: some entries are deleted and put back unchanged in one commit window, then a commit and two
	// garbage-collection passes - the proofs below are served by what is left in storage
	if r.Intn(3) == 0 && len(m) > 0 {
		ks := m.Keys()
		for i := 0; i < 1+r.Intn(2); i++ {
			k := ks[r.Intn(len(ks))]
			if err := wl.Upd(t, []byte(k), nil, 0); err == nil {
				_ = wl.Upd(t, []byte(k), m[k].Val, m[k].W)
			}
		}
		if b1, err := t.Commit(r.Intn(6)); err == nil {
			_ = b1.Commit(true)
		}
		_ = t.DeleteNodes()
		_ = t.DeleteNodes()
		c.Count("tries_with_readded_entries_and_gc", 1)
	}
	for _, k := range m.Keys() {
		if r.Intn(3) == 0 {
			v := g.SameWeightValue(m[k].W)
			if err := wl.Upd(t, []byte(k), v, m[k].W); err != nil {
				c.Violate("", "Update failed: %v", err)
				return
			}
			m[k] = wl.Entry{Val: v, W: m[k].W}
			c.Count("same_weight_overwrites", 1)
		}
	}
	mode := c.Idx % 3
	switch mode {
	case 1, 2:
		b, err := t.Commit(r.Intn(5))
		if err != nil {
			c.Violate("", "Commit failed: %v", err)
			return
		}
		if _, w0 := m.Ref(); w0 > 0 && r.Intn(2) == 0 {
			// a proof requested while the batch is not written yet may fail (collapsed nodes are not resolvable);
			// it must not leave anything behind that spoils the proofs taken afterwards
			if _, _, perr := t.GetBlockProof(1 + uint64(r.Intn(int(w0)))); perr != nil {
				c.Count("proof_attempts_failed_before_the_batch_was_written", 1)
			}
			c.Count("proof_attempts_before_the_batch_was_written", 1)
		}
		_ = b.Commit(true)
		if mode == 2 {
			wr, ww := m.Ref()
			t = wl.Reopen(wr, ww, db)
		}
	}
	// proofs from a snapshot view (CopyRoot) of a committed trie, after the trie it was taken from has moved on in memory,
	// must still verify against the snapshot's root and name the snapshot's owners and values
	moved := ""
	if mode != 0 && r.Intn(2) == 0 {
		vm := m.Copy()
		view := wmpt.New(t.CopyRoot(r.Intn(8)), db)
		ks := m.Keys()
		for i := 0; i < 1+r.Intn(3); i++ {
			k := ks[r.Intn(len(ks))]
			v, w := g.Value()
			if r.Intn(2) == 0 {
				v, w = g.SameWeightValue(m[k].W), m[k].W
			}
			if err := wl.Upd(t, []byte(k), v, w); err == nil {
				m[k] = wl.Entry{Val: v, W: w}
			}
		}
		if f := wl.CheckFull(view, vm, true); f != "" {
			c.Violate("", "honest half, snapshot view taken before %s was updated further: %s", "the trie", f)
			return
		}
		c.Count("snapshot_views_checked_after_live_updates", 1)
		moved = ", then updated in memory"
	}
	root, W := m.Ref()
	desc := fmt.Sprintf("trie of %d keys, total weight %d, %s%s", len(m), W, []string{"in memory", "committed", "committed and reloaded"}[mode], moved)
	c.Describe(map[string]any{"trie": desc})
	// honest half
	if f := wl.CheckFull(t, m, true); f != "" {
		c.Violate("", "honest half: %s (%s)", f, desc)
		return
	}
	k := &c10case{c: c, root: root, model: m, desc: desc}
	for b := uint64(1); b <= W; b++ {
		_, p, err := t.GetBlockProof(b)
		if err != nil {
			c.Violate("", "GetBlockProof(%d) failed: %v", b, err)
			return
		}
		k.honest = append(k.honest, p)
		if deep != nil {
			c.Max("honest_proof_elements", int64(len(decProof(p))))
		}
	}
	c.Count("tries", 1)
	c.Count("honest_proofs_verified", int64(W))
	// another trie for cross-trie substitution
	other := wmpt.New(nil, nil)
	for i := 0; i < 4; i++ {
		kk := g.Key(nil)
		v, w := g.Value()
		_ = wl.Upd(other, kk, v, w)
	}
	other.Root()
	var otherProofs [][]byte
	for b := uint64(1); b <= other.Weight(); b++ {
		_, p, err := other.GetBlockProof(b)
		if err == nil {
			otherProofs = append(otherProofs, p)
		}
	}
	budget := 220
	blocks := make([]uint64, 0, W)
	for b := uint64(1); b <= W; b++ {
		blocks = append(blocks, b)
	}
	if c.Quick() && len(blocks) > 5 { // quick tier: first, last and three random blocks per trie; thorough: every block
		pick := map[uint64]bool{1: true, W: true}
		for len(pick) < 5 {
			pick[1+uint64(r.Intn(int(W)))] = true
		}
		blocks = blocks[:0]
		for b := uint64(1); b <= W; b++ {
			if pick[b] {
				blocks = append(blocks, b)
			}
		}
	}
	for _, b := range blocks {
		honest := k.honest[b-1]
		hn := decProof(honest)
		// T1 / T2: re-weighting of claimed child weights inside each branch
		for bi, nd := range hn {
			if nd.Branch == nil {
				continue
			}
			var idx []int
			for i, ch := range nd.Branch.Children {
				if len(ch) >= 40 {
					idx = append(idx, i)
				}
			}
			for _, a := range idx {
				for _, cc := range idx {
					if a == cc {
						continue
					}
					for _, delta := range []uint64{1, 2, childWeight(nd.Branch.Children[a])} {
						if delta == 0 || childWeight(nd.Branch.Children[a]) < delta {
							continue
						}
						ns2 := cloneNodes(hn)
						ca, cb := ns2[bi].Branch.Children[a], ns2[bi].Branch.Children[cc]
						setChildWeight(ca, childWeight(ca)-delta)
						setChildWeight(cb, childWeight(cb)+delta)
						// same tail, and the honest tails of a few other blocks
						k.try("T1 sum-preserving re-weighting", b, encProof(ns2))
						for tries := 0; tries < 3; tries++ {
							b2 := 1 + uint64(r.Intn(int(W)))
							n2 := decProof(k.honest[b2-1])
							if len(n2) <= bi {
								continue
							}
							forged := append(append([]*wmpt.PersistNodeBase{}, ns2[:bi+1]...), n2[bi+1:]...)
							k.try("T1 sum-preserving re-weighting + spliced honest tail", b, encProof(forged))
							// T9: the same, with every weight claimed further down the spliced tail inflated as well (short nodes carry
							// their value's weight unhashed): only the leaf's own, hashed weight is left to stop the block
							f9 := cloneNodes(forged)
							for _, nd9 := range f9[bi+1:] {
								if nd9.Short != nil && len(nd9.Short.Value) >= 40 {
									binary.BigEndian.PutUint64(nd9.Short.Value[32:40], binary.BigEndian.Uint64(nd9.Short.Value[32:40])+delta+W)
								}
							}
							k.base = encProof(forged)
							k.try("T9 re-weighting + spliced tail with inflated short-node weights", b, encProof(f9))
							k.base = nil
						}
						// T2: sum-changing
						ns3 := cloneNodes(hn)
						setChildWeight(ns3[bi].Branch.Children[a], childWeight(ns3[bi].Branch.Children[a])-delta)
						k.try("T2 sum-changing re-weighting", b, encProof(ns3))
						ns4 := cloneNodes(hn)
						setChildWeight(ns4[bi].Branch.Children[cc], childWeight(ns4[bi].Branch.Children[cc])+delta+uint64(r.Intn(5)))
						for tries := 0; tries < 2; tries++ {
							b2 := 1 + uint64(r.Intn(int(W)))
							n2 := decProof(k.honest[b2-1])
							if len(n2) > bi {
								k.try("T2 sum-changing re-weighting + spliced tail", b, encProof(append(append([]*wmpt.PersistNodeBase{}, ns4[:bi+1]...), n2[bi+1:]...)))
							}
						}
					}
					// T3: swap sibling entries / sibling hashes
					ns5 := cloneNodes(hn)
					ch := ns5[bi].Branch.Children
					ch[a], ch[cc] = ch[cc], ch[a]
					k.try("T3 swapped sibling entries", b, encProof(ns5))
					ns6 := cloneNodes(hn)
					ch = ns6[bi].Branch.Children
					ha := append([]byte(nil), ch[a][:32]...)
					copy(ch[a][:32], ch[cc][:32])
					copy(ch[cc][:32], ha)
					k.try("T3 swapped sibling hashes", b, encProof(ns6))
				}
			}
		}
		// T4: proofs / nodes of other blocks, other positions, another trie
		for tries := 0; tries < 6; tries++ {
			b2 := 1 + uint64(r.Intn(int(W)))
			if b2 != b {
				if tries%2 == 0 { // the long-lived verifier has just accepted these very bytes for the block they belong to
					if k.ver == nil {
						k.ver = wmpt.New(nil, nil)
					}
					_, _, _ = k.ver.VerifyBlockProof(b2, k.honest[b2-1])
					k.useShared = true
				}
				k.try("T4 honest proof of another block", b, k.honest[b2-1])
			}
			n2 := decProof(k.honest[b2-1])
			ns := cloneNodes(hn)
			i, j := r.Intn(len(ns)), r.Intn(len(n2))
			ns[i] = n2[j]
			k.try("T4 node substituted from another proof/position", b, encProof(ns))
			if len(otherProofs) > 0 {
				op := decProof(otherProofs[r.Intn(len(otherProofs))])
				ns = cloneNodes(hn)
				ns[r.Intn(len(ns))] = op[r.Intn(len(op))]
				k.try("T4 node substituted from another trie", b, encProof(ns))
				k.try("T4 whole proof of another trie", b, otherProofs[r.Intn(len(otherProofs))])
			}
		}
		// T5: drop / duplicate / reorder / truncate
		for i := range hn {
			ns := cloneNodes(hn)
			k.try("T5 dropped element", b, encProof(append(ns[:i:i], ns[i+1:]...)))
			ns = cloneNodes(hn)
			dup := append(append(append([]*wmpt.PersistNodeBase{}, ns[:i+1]...), ns[i]), ns[i+1:]...)
			k.try("T5 duplicated element", b, encProof(dup))
			k.try("T5 truncated", b, encProof(cloneNodes(hn)[:i]))
			if i+1 < len(hn) {
				ns = cloneNodes(hn)
				ns[i], ns[i+1] = ns[i+1], ns[i]
				k.try("T5 reordered", b, encProof(ns))
			}
		}
		// T6: edit short keys, value bytes, value weights
		for i, nd := range hn {
			if nd.Short != nil {
				ns := cloneNodes(hn)
				if len(ns[i].Short.Key) > 0 {
					ns[i].Short.Key[r.Intn(len(ns[i].Short.Key))] ^= 1
					k.try("T6 short key edited", b, encProof(ns))
				}
				ns = cloneNodes(hn)
				binary.BigEndian.PutUint64(ns[i].Short.Value[32:], binary.BigEndian.Uint64(ns[i].Short.Value[32:])+1)
				k.try("T6 short child weight edited", b, encProof(ns))
			}
			if nd.Value != nil {
				ns := cloneNodes(hn)
				ns[i].Value.Value = append(ns[i].Value.Value, 'x')
				k.try("T6 value bytes edited", b, encProof(ns))
				if len(nd.Value.Value) > 34 { // edit confined to the tail of a long value
					ns = cloneNodes(hn)
					ns[i].Value.Value[33+r.Intn(len(ns[i].Value.Value)-33)] ^= 0x20
					k.try("T6 long value edited beyond byte 32", b, encProof(ns))
					ns = cloneNodes(hn)
					ns[i].Value.Value = ns[i].Value.Value[:32+r.Intn(len(ns[i].Value.Value)-32)]
					k.try("T6 long value truncated", b, encProof(ns))
				}
				ns = cloneNodes(hn)
				ns[i].Value.Weight += 1 + uint64(r.Intn(3))
				k.try("T6 value weight edited", b, encProof(ns))
				ns = cloneNodes(hn)
				ns[i].Value.Value = []byte("forged-value")
				ns[i].Value.Hash = nil
				k.try("T6 value replaced", b, encProof(ns))
			}
		}
		// T7: type confusion
		for i := range hn {
			ns := cloneNodes(hn)
			ns[i] = &wmpt.PersistNodeBase{HashNode: &wmpt.PersistHashNode{Hash: k.root, Weight: W}}
			k.try("T7 element replaced by a hash node", b, encProof(ns))
			ns = cloneNodes(hn)
			ns[i] = &wmpt.PersistNodeBase{NilNode: &wmpt.PersistNilNode{}}
			k.try("T7 element replaced by a nil node", b, encProof(ns))
			ns = cloneNodes(hn)
			ns[i] = &wmpt.PersistNodeBase{Value: &wmpt.PersistNodeValue{Value: []byte("forged"), Weight: W}}
			k.try("T7 element replaced by a value node", b, encProof(ns))
		}
		// T8: bit flips and random splices on the raw bytes
		for tries := 0; tries < 12; tries++ {
			f := append([]byte(nil), honest...)
			for kk := 0; kk < 1+r.Intn(3); kk++ {
				f[r.Intn(len(f))] ^= 1 << uint(r.Intn(8))
			}
			k.try("T8 bit flips", b, f)
			o := k.honest[r.Intn(len(k.honest))]
			i, j := r.Intn(len(honest)), r.Intn(len(o))
			k.try("T8 raw splice", b, append(append([]byte(nil), honest[:i]...), o[j:]...))
		}
		budget--
		if budget <= 0 {
			break
		}
	}
	c.Distinct("tries", fw.Hash64(fmt.Sprintf("%x", root), mode))
	if c.Idx < 2 {
		c.Sample(map[string]any{"trie": desc, "honest_proof_of_block_1_hex": fmt.Sprintf("%x", k.honest[0])})
	}
	_ = rand.Int
}

func init() {
	fw.Register(&fw.Prop{
		ID:           "C10",
		EvalCounters: []string{"tamperings", "honest_proofs_verified"},
		Level:        "exploration",
		Rule: "(T9: every T1 forgery with a spliced tail is repeated with all weights claimed further down the tail inflated as well - short nodes carry their value's weight unhashed - so that only the leaf's own hashed weight can stop the block; a T9 hit counts under the known finding only if the same forgery without the inflation verifies to the same root with the same value.) half of the committed tries are asked for a proof between Commit and the write of its batch (the attempt may fail and must leave nothing behind); a third of the tries delete and put back unchanged entries in one commit window, commit and run two garbage-collection passes before the proofs are taken; for half of the committed tries a CopyRoot snapshot view is taken, the trie is updated further in memory, and every proof of the view must verify against the view's own root and content. Each case builds a weighted trie of 2..10 keys (a fifth of the values are 80..160 bytes long; after a first commit a third of the values are replaced by different values of the same weight) (in memory / committed at level 0..4 / committed and reloaded from the hash). Honest half: every block 1..W proves to the reference root with the owner's value. Adversarial half: for every block (thorough) / first, last and three random blocks (quick) the honest proof is decoded with the exported Persist* types, " +
			"tampered and re-encoded: T1 sum-preserving re-weighting of claimed child weights in each branch (all ordered sibling pairs, deltas 1, 2 and the whole weight; same tail and honest tails of other blocks), T2 sum-changing re-weighting, T3 swapped sibling entries/hashes, T4 nodes or whole proofs from other blocks, positions and another trie, " +
			"T5 dropped/duplicated/reordered/truncated elements, T6 edited short keys, child weights, value bytes and weights, T7 type confusion (hash/nil/value node in place of an element), T8 bit flips and raw splices. A forged proof is a violation iff verification returns no error, the trusted root and a value different from the true owner's. " +
			"distinct non-trivial = distinct (trie root, block, tampering class) combinations submitted",
		Cases: func(tier string) int {
			if tier == "thorough" {
				return 20000
			}
			return 1280
		},
		Run: runC10,
		Floors: map[string]int64{"submissions_to_a_long_lived_verifier": 500000, "tries_with_readded_entries_and_gc": 300, "snapshot_views_checked_after_live_updates": 300, "proof_attempts_before_the_batch_was_written": 300, "deepest_path_tries": 1, "max:honest_proof_elements": 60, "tries": 1000, "honest_proofs_verified": 20000, "tamperings": 1000000, "tamper:T9 re-weighting + spliced tail with inflated short-node weights": 100000, "tamper:T2 sum-changing re-weighting": 10000, "tamper:T1 sum-preserving re-weighting": 10000, "tamper:T3 swapped sibling hashes": 10000,
			"tamper:T4 honest proof of another block": 10000, "tamper:T5 dropped element": 10000, "tamper:T6 value weight edited": 5000, "tamper:T7 element replaced by a hash node": 10000, "tamper:T8 bit flips": 50000, "rejected_with_error": 100000, "rejected_other_root": 100000, "same_weight_overwrites": 1000, "tamper:T6 long value edited beyond byte 32": 500},
		Assumptions: []string{
			"the adversarial half ranges over structured tamperings of honest proofs and random byte edits, not over all byte strings",
			"forgeries that differ from honest proofs only in claimed child weights with unchanged branch sums are classified as the known finding reweight-sum-preserving (the branch hash binds only the sum)",
		},
	})
}
