package props

import (
	"bytes"
	"context"
	"errors"
	"fmt"
	"sort"
	"strings"

	"github.com/0chain/common/core/util"
	"github.com/linxGnu/grocksdb"

	"verif/harness/internal/fw"
	lab "verif/harness/internal/mptlab"
)

// C17 — missing-node detection is exact; sync repair (MergeDB, MergeState) restores the trie and leaves the donor unchanged.

func memSnapshot(db *util.MemoryNodeDB) string {
	var out []string
	_ = db.Iterate(context.Background(), func(ctx context.Context, key util.Key, node util.Node) error {
		out = append(out, fmt.Sprintf("%x=%x", key, node.Encode()))
		return nil
	})
	sort.Strings(out)
	return strings.Join(out, "\n")
}

func runC17(c *fw.Ctx) {
	r := c.Rng
	g := lab.NewPathGen(r)
	full := util.NewMemoryNodeDB()
	mdl := map[string][]byte{}
	var root util.Key
	nver := 1 + r.Intn(4)
	// every 83rd case is a big trie (several hundred nodes): repairs then move more nodes than any batch size in the
	// store layer
	fat := c.Idx%83 == 7
	v0 := r.Intn(2) // half of the tries start at version 0 (genesis nodes carry origin 0)
	if v0 == 0 {
		c.Count("tries_built_from_version_0", 1)
	}
	for v := v0; v <= nver; v++ {
		m := lab.NewMPT(full, int64(v), root)
		nops := 2 + r.Intn(6)
		if fat {
			nops = 100 + r.Intn(120)
		}
		for i, n := 0, nops; i < n; i++ {
			p := g.Pick(lab.SortedKeys(mdl))
			if fat && i%4 != 0 {
				b := make([]byte, 8)
				for j := range b {
					b[j] = "0123456789abcdef"[r.Intn(16)]
				}
				p = string(b)
			}
			if r.Intn(5) == 0 {
				_, _ = m.Delete(util.Path(p))
				delete(mdl, p)
				c.Tracef("v%d del %q", v, p)
				continue
			}
			val := lab.GenValue(r, i)
			if _, err := m.Insert(util.Path(p), &lab.Val{B: val}); err != nil {
				panic(err)
			}
			mdl[p] = val
			c.Tracef("v%d ins %q=%q", v, p, val)
		}
		root = m.GetRoot()
	}
	nodes, miss0 := lab.Walk(full, root)
	if len(miss0) > 0 {
		panic("harness: freshly built trie has missing nodes")
	}
	if len(nodes) < 2 {
		c.Count("trivial_tries", 1)
		return
	}
	origins := map[int64]bool{}
	for _, n := range nodes {
		origins[int64(n.Node.GetOrigin())] = true
	}
	// children relation for subtree removal
	idxOf := map[string]int{}
	for i, n := range nodes {
		idxOf[string(n.Key)] = i
	}
	kids := make([][]int, len(nodes))
	for i, n := range nodes {
		switch t := n.Node.(type) {
		case *util.FullNode:
			for _, ch := range t.Children {
				if ch != nil {
					kids[i] = append(kids[i], idxOf[string(ch)])
				}
			}
		case *util.ExtensionNode:
			kids[i] = append(kids[i], idxOf[string(t.NodeKey)])
		}
	}
	var subtree func(i int, set map[int]bool)
	subtree = func(i int, set map[int]bool) {
		set[i] = true
		for _, k := range kids[i] {
			subtree(k, set)
		}
	}
	// removal sets
	var sets []map[int]bool
	var setKinds []string
	for i := 1; i < len(nodes) && i <= 24; i++ { // every single non-root node (exhaustive for small tries)
		sets = append(sets, map[int]bool{i: true})
		setKinds = append(setKinds, "single")
	}
	for k := 0; k < 3; k++ {
		s := map[int]bool{}
		subtree(1+r.Intn(len(nodes)-1), s)
		sets = append(sets, s)
		setKinds = append(setKinds, "subtree")
	}
	for k := 0; k < 4; k++ {
		s := map[int]bool{}
		for i := 1; i < len(nodes); i++ {
			if r.Intn(3) == 0 {
				s[i] = true
			}
		}
		sets = append(sets, s)
		setKinds = append(setKinds, "scattered")
	}
	if fat {
		// a big trie gets few removal sets: two single nodes, one subtree, one scattered third, every non-root node
		sets = [][]map[int]bool{{sets[0], sets[r.Intn(24)], sets[24], sets[27]}}[0]
		setKinds = []string{"single", "single", "subtree", "scattered"}
		s := map[int]bool{}
		for i := 1; i < len(nodes); i++ {
			s[i] = true
		}
		sets = append(sets, s, s) // twice: one repaired through the store (MergeState), one through the trie (MergeDB)
		setKinds = append(setKinds, "all-but-root", "all-but-root")
		if len(s) > 256 {
			c.Count("removal_sets_above_256_nodes", 1)
		}
		// every node without children: each of them is reachable through present nodes, so one handle that walks the
		// whole trie has several hundred distinct absent nodes to record
		lv := map[int]bool{}
		for i := 1; i < len(nodes); i++ {
			if len(kids[i]) == 0 {
				lv[i] = true
			}
		}
		sets = append(sets, lv)
		setKinds = append(setKinds, "all-childless")
		if len(lv) > 256 {
			c.Count("removal_sets_with_more_than_256_absent_nodes_reachable_through_present_ones", 1)
		}
		c.Count("fat_tries", 1)
	}
	sets = append(sets, map[int]bool{})
	setKinds = append(setKinds, "none")
	c.Count("tries", 1)
	if len(origins) > 1 {
		c.Count("tries_with_mixed_origins", 1)
	}

	for si, removed := range sets {
		storeKind := (c.Idx + si) % 3
		var part util.NodeDB
		cleanup := func() {}
		disk := fmt.Sprintf("/verif-stub/C17/%d/%d/%d", c.Seed, c.Idx, si)
		switch storeKind {
		case 0:
			part = util.NewMemoryNodeDB()
		case 1:
			part = util.NewLevelNodeDB(util.NewMemoryNodeDB(), util.NewMemoryNodeDB(), false)
		default:
			p, err := util.NewPNodeDB(disk, "")
			if err != nil {
				panic(err)
			}
			part = p
			cleanup = func() { p.Close(); grocksdb.DropDisk(disk) }
		}
		donor := util.NewMemoryNodeDB()
		absent := map[string]bool{}
		// on a persistent store every other removal set is removed for real: the store first holds the whole trie and has
		// served a complete read of it, then the set is deleted in one batch (the way pruning removes nodes) - the same
		// store object has to answer for what it holds now
		deleteLater := storeKind == 2 && si%2 == 0 && len(removed) > 0
		for i, n := range nodes {
			if removed[i] {
				_ = donor.PutNode(n.Key, n.Node)
				absent[string(n.Key)] = true
				if deleteLater {
					_ = part.PutNode(n.Key, n.Node)
				}
			} else if storeKind == 1 && i%2 == 1 {
				_ = part.(*util.LevelNodeDB).GetPrev().PutNode(n.Key, n.Node)
			} else {
				_ = part.PutNode(n.Key, n.Node)
			}
		}
		if deleteLater {
			if has, herr := lab.NewMPT(part, int64(nver), root).HasMissingNodes(context.Background()); herr != nil || has {
				c.Violate("", "a complete trie on a persistent store reports missing nodes: %v, %v", has, herr)
			}
			var ks []util.Key
			for i, n := range nodes {
				if removed[i] {
					ks = append(ks, n.Key)
				}
			}
			if derr := part.MultiDeleteNode(ks); derr != nil {
				panic(derr)
			}
			c.Count("removal_sets_deleted_in_one_batch_from_a_store_that_had_served_them", 1)
		}
		// frontier: absent nodes reachable through present ones; covered[path] = lookups that must fail
		frontier := map[string]bool{}
		blocked := map[string]bool{} // model paths that run into an absent node
		var walk func(i int, ok bool)
		walk = func(i int, ok bool) {
			if removed[i] {
				if ok {
					frontier[string(nodes[i].Key)] = true
				}
				ok = false
			}
			for _, k := range kids[i] {
				walk(k, ok)
			}
		}
		walk(0, true)
		// which model paths are blocked: a path is blocked if some node on its way is removed
		for p := range mdl {
			for i, n := range nodes {
				if removed[i] && strings.HasPrefix(p, n.Path) { // node positions are unique: the lookup of p visits exactly the nodes whose position prefixes p
					blocked[p] = true
				}
			}
		}
		mv := int64(nver)
		if r.Intn(2) == 0 {
			mv = int64(nver + 1 + r.Intn(3))
		}
		desc := fmt.Sprintf("removal=%s(%d of %d nodes) store=%d trieVersion=%d originsInTrie=%d", setKinds[si], len(removed), len(nodes), storeKind, mv, len(origins))
		fail := func(format string, a ...any) {
			c.Violate("", "%s [%s]\nbuild: %s", fmt.Sprintf(format, a...), desc, strings.Join(c.Trace(), "; "))
		}
		M := lab.NewMPT(part, mv, root)
		has, err := M.HasMissingNodes(context.Background())
		if err != nil {
			fail("HasMissingNodes error: %v", err)
		} else if has != (len(frontier) > 0) {
			fail("HasMissingNodes = %v but %d reachable node(s) are absent", has, len(frontier))
		}
		if len(frontier) >= 2 && len(nodes) <= 200 && storeKind == 0 {
			// one handle is asked twice: its first report is still in use (a sync works through it) when one of the reported
			// nodes has arrived and the handle is asked again; the first report stays what it was
			H := lab.NewMPT(part, mv, root)
			r1, _ := H.GetAllMissingNodes()
			snap := make([]string, len(r1))
			for i, k := range r1 {
				snap[i] = string(k)
			}
			if len(r1) > 0 {
				if nd, gerr := donor.GetNode(r1[0]); gerr == nil {
					_ = part.PutNode(r1[0], nd)
					r2, _ := H.GetAllMissingNodes()
					for i, k := range r1 {
						if string(k) != snap[i] {
							fail("the list returned by GetAllMissingNodes changed (entry %d of %d) when the same handle was asked again after one reported node had arrived", i, len(r1))
							break
						}
					}
					for _, k := range r2 {
						if string(k) == snap[0] {
							fail("GetAllMissingNodes still reports %x after it was put back", k)
						}
					}
					_ = part.DeleteNode(r1[0])
					c.Count("missing_node_reports_held_across_a_second_call", 1)
				}
			}
		}
		miss, _ := lab.NewMPT(part, mv, root).GetAllMissingNodes()
		got := map[string]bool{}
		for _, k := range miss {
			got[string(k)] = true
		}
		if len(got) != len(frontier) {
			fail("GetAllMissingNodes reports %d keys, exactly %d absent nodes are reachable through present ones", len(got), len(frontier))
		} else {
			for k := range frontier {
				if !got[k] {
					fail("GetAllMissingNodes does not report the absent node %x", k)
					break
				}
			}
		}
		// lookups
		L := lab.NewMPT(part, mv, root)
		for p, v := range mdl {
			d, err := L.GetNodeValueRaw(util.Path(p))
			if blocked[p] {
				if err == nil {
					fail("lookup %q passes through an absent node but returned %q", p, d)
				} else if !errors.Is(err, util.ErrNodeNotFound) {
					fail("lookup %q under an absent node returned %v, want ErrNodeNotFound", p, err)
				}
				c.Count("blocked_lookups", 1)
			} else if err != nil || !bytes.Equal(d, v) {
				fail("lookup %q (no absent node on its way) = %q, %v; content is %q", p, d, err, v)
			}
		}
		for _, p := range lab.AbsentProbes(g, mdl) {
			if _, ok := mdl[p]; ok {
				continue
			}
			d, err := L.GetNodeValueRaw(util.Path(p))
			if err == nil {
				fail("lookup of never-stored path %q returned data %q", p, d)
			}
		}
		// the handle has now walked towards every stored path: what it recorded on the way is (as a set) exactly the absent
		// nodes reachable through present ones - the list a node hands to its peers when it asks for state
		recorded := map[string]bool{}
		for _, k := range L.GetMissingNodeKeys() {
			if !absent[string(k)] {
				fail("GetMissingNodeKeys lists %x which is present in the store", k)
			}
			recorded[string(k)] = true
		}
		for k := range frontier {
			if !recorded[k] {
				fail("after lookups of every stored path GetMissingNodeKeys (%d distinct keys) does not list the absent node %x; %d absent nodes are reachable through present ones", len(recorded), k, len(frontier))
				break
			}
		}
		c.Max("max:absent_nodes_recorded_by_one_handle", int64(len(recorded)))
		// partial iteration never yields wrong data
		if gotc, _ := lab.IterAll(lab.NewMPT(part, mv, root)); true {
			for p, v := range gotc {
				if w, ok := mdl[p]; !ok || !bytes.Equal(v, w) {
					fail("iteration of the damaged trie yields %q=%q, content has %q", p, v, w)
				}
			}
		}
		// repair
		dsnap := memSnapshot(donor)
		if len(removed) > 0 && si%3 == 1 {
			// store-level repair: the donor's nodes are merged into the store below the trie. For a layered store half of
			// the repairs write into its lower level directly (the same layered object, which has already looked the absent
			// keys up, is used afterwards); every fourth repair reads the donor from a persistent store
			target := part
			if lv, isLevel := part.(*util.LevelNodeDB); isLevel && r.Intn(2) == 0 {
				target = lv.GetPrev()
				c.Count("store_level_repairs_into_the_lower_level", 1)
			}
			var src util.NodeDB = donor
			if si%4 == 1 {
				pdisk := disk + "-pdonor"
				pd, perr := util.NewPNodeDB(pdisk, "")
				if perr != nil {
					panic(perr)
				}
				defer func() { pd.Close(); grocksdb.DropDisk(pdisk) }()
				for i, n := range nodes {
					if removed[i] {
						_ = pd.PutNode(n.Key, n.Node)
					}
				}
				src = pd
				c.Count("store_level_repairs_from_a_persistent_donor", 1)
			}
			if storeKind == 2 && target == part && r.Intn(3) == 0 {
				// the persistent store refuses the first write of the repair (a transient fault): a repair that reports success
				// must have stored the nodes (checked below like every repair); one that reports the failure is simply retried
				grocksdb.Control(disk).FailWrite(0)
				ferr := util.MergeState(context.Background(), src, target)
				grocksdb.Control(disk).Restart()
				if ferr != nil {
					if err := util.MergeState(context.Background(), src, target); err != nil {
						fail("MergeState retried after a refused write failed: %v", err)
					}
				} else {
					c.Count("repairs_reporting_success_despite_a_refused_write", 1)
				}
				c.Count("store_level_repairs_with_a_refused_write", 1)
			} else if err := util.MergeState(context.Background(), src, target); err != nil {
				fail("MergeState failed: %v", err)
			}
			c.Count("store_level_repairs", 1)
		} else if err := M.MergeDB(donor, root, nil); err != nil {
			fail("MergeDB failed: %v", err)
		}
		if memSnapshot(donor) != dsnap {
			fail("the repair changed the donor store")
		}
		if !bytes.Equal(M.GetRoot(), root) {
			fail("root changed by repair")
		}
		if f := lab.CheckMap(M, mdl, nil); f != "" {
			fail("after repair: %s", f)
		}
		if has, _ := M.HasMissingNodes(context.Background()); has {
			fail("HasMissingNodes still true after repair")
		}
		F := lab.NewMPT(part, mv, root) // fresh trie on the repaired store
		if f := lab.CheckMap(F, mdl, nil); f != "" {
			fail("fresh trie on the repaired store: %s", f)
		}
		// warm-cache repair: a trie that has read the complete state loses nodes from its store behind its back,
		// is repaired through MergeDB, and the result is observed by a trie with a fresh cache
		if len(removed) > 0 && si%3 == 0 && !c.Violated() {
			W := lab.NewMPT(part, mv, root)
			if f := lab.CheckMap(W, mdl, nil); f != "" {
				fail("warm-up read of the repaired store: %s", f)
			}
			for i, n := range nodes {
				if removed[i] {
					removeFromStore(part, n.Key)
				}
			}
			if has, _ := lab.NewMPT(part, mv, root).HasMissingNodes(context.Background()); !has {
				fail("harness: nodes removed from the store are still found by a fresh trie")
			}
			if err := W.MergeDB(donor, root, nil); err != nil {
				fail("MergeDB on a trie with a warm cache failed: %v", err)
			}
			if memSnapshot(donor) != dsnap {
				fail("MergeDB (warm cache) changed the donor store")
			}
			F2 := lab.NewMPT(part, mv, root)
			if has, _ := F2.HasMissingNodes(context.Background()); has {
				fail("after MergeDB through a trie with a warm cache, a fresh trie on the same store still has missing nodes")
			} else if f := lab.CheckMap(F2, mdl, nil); f != "" {
				fail("after MergeDB through a trie with a warm cache, a fresh trie reads: %s", f)
			}
			c.Count("warm_cache_repairs", 1)
		}
		// a repaired child trie whose changes are merged into a parent at another version: the donor must still be unchanged
		if len(removed) > 0 && si%4 == 1 && !c.Violated() {
			pstore := util.NewMemoryNodeDB()
			for i, n := range nodes {
				if !removed[i] {
					_ = pstore.PutNode(n.Key, n.Node)
				}
			}
			P := lab.NewMPT(util.NewLevelNodeDB(util.NewMemoryNodeDB(), pstore, false), mv+3, root)
			Cc := lab.NewMPT(util.NewLevelNodeDB(util.NewMemoryNodeDB(), P.GetNodeDB(), false), mv+3, root)
			// in half of the cases the child first changes the state locally (deletes a readable path) and then syncs back to
			// the root from a complete donor: the nodes its own delete had dropped come back with the sync
			syncDonor, ssnap := donor, dsnap
			localDelete, localFailed := "none", false
			if r.Intn(2) == 0 {
				var cand []string
				for _, p := range lab.SortedKeys(mdl) {
					if !blocked[p] {
						cand = append(cand, p)
					}
				}
				if len(cand) > 0 {
					lp := cand[r.Intn(len(cand))]
					_, derr := Cc.Delete(util.Path(lp))
					localDelete = fmt.Sprintf("%q -> %v", lp, derr)
					localFailed = derr != nil
					if derr == nil {
						syncDonor = util.NewMemoryNodeDB()
						for _, n := range nodes {
							_ = syncDonor.PutNode(n.Key, n.Node)
						}
						ssnap = memSnapshot(syncDonor)
						c.Count("syncs_after_a_local_delete", 1)
					}
				}
			}
			if err := Cc.MergeDB(syncDonor, root, nil); err != nil {
				fail("MergeDB on a child trie failed: %v", err)
			} else {
				// what the synced trie now reports as deleted must not be reachable from its root (a save with deletes, a
				// dead-node record or the parent merge below would otherwise drop live nodes)
				rn, _ := lab.Walk(Cc.GetNodeDB(), Cc.GetRoot())
				live := map[string]bool{}
				for _, n := range rn {
					live[string(n.Key)] = true
				}
				for _, d := range Cc.GetDeletes() {
					// (a local delete that failed on the damaged trie - it needed an absent sibling - leaves the trie in a state
					// no property speaks about: not judged)
					if live[string(d.GetHashBytes())] && !localFailed {
						fail("after the sync (local delete before it: %s) the trie reports node %x as deleted although it is reachable from its root", localDelete, d.GetHashBytes())
						break
					}
				}
				extra := g.Pick(lab.SortedKeys(mdl)) + "0f"
				want := lab.CopyContent(mdl)
				if _, err := Cc.Insert(util.Path(extra), &lab.Val{B: []byte("after-repair")}); err == nil {
					want[extra] = []byte("after-repair")
					if merr := P.MergeMPTChanges(Cc); merr != nil {
						fail("merging the repaired child into its parent failed: %v", merr)
					} else if f := lab.CheckMap(P, want, nil); f != "" {
						fail("parent after merging the repaired child: %s", f)
					}
				}
				if memSnapshot(syncDonor) != ssnap {
					fail("the donor store changed after the repaired trie's changes were merged into its parent")
				}
				c.Count("repaired_child_merged_into_parent", 1)
			}
		}
		// a handle with a history: it has read the complete state (warm cache), replaces one value locally (the replaced
		// nodes are really deleted from a memory / persistent store) and is then synced back to the old root from a donor that
		// does not hold those nodes. What it reports must follow the store as it is now, not what its cache remembers.
		if storeKind != 1 && si%5 == 2 && len(mdl) > 0 && !c.Violated() {
			var hs util.NodeDB
			hclean := func() {}
			hdisk := disk + "-h"
			if storeKind == 0 {
				hs = util.NewMemoryNodeDB()
			} else {
				hp, herr := util.NewPNodeDB(hdisk, "")
				if herr != nil {
					panic(herr)
				}
				hs = hp
				hclean = func() { hp.Close(); grocksdb.DropDisk(hdisk) }
			}
			for _, n := range nodes {
				_ = hs.PutNode(n.Key, n.Node)
			}
			H := lab.NewMPT(hs, mv, root)
			if f := lab.CheckMap(H, mdl, nil); f != "" {
				fail("handle on a complete store: %s", f)
			}
			ks := lab.SortedKeys(mdl)
			up := ks[r.Intn(len(ks))]
			if _, ierr := H.Insert(util.Path(up), &lab.Val{B: []byte("local-update")}); ierr == nil {
				rootDonor := util.NewMemoryNodeDB() // holds the old root node only (an absent root is outside the property's domain)
				_ = rootDonor.PutNode(nodes[0].Key, nodes[0].Node)
				if merr := H.MergeDB(rootDonor, root, nil); merr != nil {
					fail("MergeDB back to the old root failed: %v", merr)
				}
				// what is absent now, as the store says
				gone := map[int]bool{}
				for i, n := range nodes {
					if sn, gerr := hs.GetNode(n.Key); gerr != nil || sn == nil {
						gone[i] = true
					}
				}
				hfront := map[string]bool{}
				var hwalk func(i int, ok bool)
				hwalk = func(i int, ok bool) {
					if gone[i] {
						if ok {
							hfront[string(nodes[i].Key)] = true
						}
						ok = false
					}
					for _, k := range kids[i] {
						hwalk(k, ok)
					}
				}
				hwalk(0, true)
				has, herr := H.HasMissingNodes(context.Background())
				if herr != nil || has != (len(hfront) > 0) {
					fail("a handle that replaced %q locally and was synced back to the old root: HasMissingNodes = %v, %v, but %d reachable node(s) are absent from its store", up, has, herr, len(hfront))
				}
				miss, _ := H.GetAllMissingNodes()
				gotm := map[string]bool{}
				for _, k := range miss {
					gotm[string(k)] = true
				}
				if len(gotm) != len(hfront) {
					fail("a handle that replaced %q locally and was synced back to the old root: GetAllMissingNodes reports %d keys, %d absent nodes are reachable through present ones", up, len(gotm), len(hfront))
				}
				for p, v := range mdl {
					under := false
					for i, n := range nodes {
						if gone[i] && strings.HasPrefix(p, n.Path) {
							under = true
						}
					}
					d, lerr := H.GetNodeValueRaw(util.Path(p))
					if under && lerr == nil {
						fail("a handle that replaced %q locally and was synced back to the old root: lookup %q passes through a node that is gone from the store but returned %q", up, p, d)
						break
					} else if !under && (lerr != nil || !bytes.Equal(d, v)) {
						fail("a handle that replaced %q locally and was synced back to the old root: lookup %q (nothing absent on its way) = %q, %v; content is %q", up, p, d, lerr, v)
						break
					}
				}
				if len(hfront) > 0 {
					c.Count("handles_with_history_synced_back_over_real_deletions", 1)
				}
				c.Count("handles_with_history_synced_back", 1)
			}
			hclean()
		}
		// sync into a layered trie, then persist: SaveChanges to the lower store, fresh trie on that store alone
		if len(removed) > 0 && si%4 == 2 && !c.Violated() {
			lower := util.NewMemoryNodeDB()
			for i, n := range nodes {
				if !removed[i] {
					_ = lower.PutNode(n.Key, n.Node)
				}
			}
			L := lab.NewMPT(util.NewLevelNodeDB(util.NewMemoryNodeDB(), lower, false), mv, root)
			if err := L.MergeDB(donor, root, nil); err != nil {
				fail("MergeDB on a layered trie failed: %v", err)
			} else if err := L.SaveChanges(context.Background(), lower, false); err != nil {
				fail("SaveChanges after the sync failed: %v", err)
			} else {
				F3 := lab.NewMPT(lower, mv, root)
				if has, _ := F3.HasMissingNodes(context.Background()); has {
					fail("after sync (MergeDB) and SaveChanges a fresh trie on the saved store still has missing nodes")
				} else if f := lab.CheckMap(F3, mdl, nil); f != "" {
					fail("after sync and SaveChanges a fresh trie on the saved store reads: %s", f)
				}
				c.Count("synced_state_saved_and_reread", 1)
			}
		}
		// the donor is a layered store whose own trie has moved on since (replaced nodes are only marked deleted there):
		// every node of the old root is still physically in it, so the repair of the old root must succeed
		if len(removed) > 0 && si%4 == 3 && !c.Violated() {
			dprev, dcur := util.NewMemoryNodeDB(), util.NewMemoryNodeDB()
			for i, n := range nodes {
				if i%2 == 0 {
					_ = dprev.PutNode(n.Key, n.Node)
				} else {
					_ = dcur.PutNode(n.Key, n.Node)
				}
			}
			ldonor := util.NewLevelNodeDB(dcur, dprev, false)
			D := lab.NewMPT(ldonor, mv+1, root)
			for k := 0; k < 4; k++ { // the donor's trie moves on
				p := g.Pick(lab.SortedKeys(mdl))
				if r.Intn(2) == 0 {
					_, _ = D.Delete(util.Path(p))
				} else {
					_, _ = D.Insert(util.Path(p), &lab.Val{B: []byte("moved-on")})
				}
			}
			// nodes of the old root that the moved-on trie deleted from the donor's current level are put back (the
			// lower level keeps everything, deletes are not propagated)
			for i, n := range nodes {
				if i%2 == 1 {
					_ = dcur.PutNode(n.Key, n.Node)
				}
			}
			tgt := util.NewMemoryNodeDB()
			for i, n := range nodes {
				if !removed[i] {
					_ = tgt.PutNode(n.Key, n.Node)
				}
			}
			R := lab.NewMPT(tgt, mv, root)
			if err := R.MergeDB(ldonor, root, nil); err != nil {
				fail("MergeDB from a layered donor failed: %v", err)
			} else if has, _ := lab.NewMPT(tgt, mv, root).HasMissingNodes(context.Background()); has {
				fail("repair of the old root from a layered donor whose own trie has moved on leaves missing nodes although the donor still holds every node")
			} else if f := lab.CheckMap(lab.NewMPT(tgt, mv, root), mdl, nil); f != "" {
				fail("after repair from a layered donor: %s", f)
			}
			c.Count("repairs_from_layered_donor", 1)
		}
		c.Count("removal_sets", 1)
		c.Count("removal:"+setKinds[si], 1)
		if mv != int64(nver) || len(origins) > 1 {
			c.Count("repairs_with_foreign_origin", 1)
		}
		if len(removed) > 0 {
			c.Distinct("nontrivial", fw.Hash64(c.Idx, si))
		}
		cleanup()
		if c.Violated() {
			return
		}
	}
	if c.Idx < 2 {
		c.Sample(map[string]any{"build": c.Trace(), "nodes": len(nodes), "removal_sets": len(sets)})
	}
}

func removeFromStore(db util.NodeDB, key []byte) {
	if l, ok := db.(*util.LevelNodeDB); ok {
		_ = l.GetCurrent().DeleteNode(key)
		_ = l.GetPrev().DeleteNode(key)
		return
	}
	_ = db.DeleteNode(key)
}

func init() {
	fw.Register(&fw.Prop{
		ID:           "C17",
		EvalCounters: []string{"removal_sets"},
		Level:        "exploration",
		Rule: "each case builds a trie over 1..4 versions (so node origins differ; every 83rd case a big one with several hundred nodes and an additional removal set holding every non-root node) and then, for every single reachable non-root node (up to 24; exhaustive for small tries), 3 whole subtrees, 4 scattered subsets and the empty set, " +
			"copies the trie into a store (memory / layered / persistent) without the removed nodes and a donor store with them. A trie opened at a version equal to or above the creating versions must: report HasMissingNodes iff the frontier is non-empty; " +
			"GetAllMissingNodes == frontier (absent nodes reachable through present ones, computed by the harness); lookups through an absent node fail with ErrNodeNotFound, others return the model value, never-stored paths never return data; partial iteration yields only true pairs; " +
			"after the repair (MergeDB(donor) through the trie, or for a third of the removal sets the store-level util.MergeState(donor, store) - for layered stores half of them into the lower level directly, a quarter from a donor that is a persistent store -): content complete (also for a fresh trie on the repaired store), root unchanged, HasMissingNodes false, donor snapshot (key->encoding) byte-identical; for a fifth of the removal sets on a memory or persistent store a handle that has read the complete state replaces one value locally (its store really deletes the replaced nodes) and is synced back to the old root from a donor holding only the old root node: HasMissingNodes / GetAllMissingNodes / lookups must follow the store as it is now, not what the handle's cache remembers; for a third of the removal sets the repair is repeated through a trie whose cache is warm (it read the complete state before the nodes were deleted from its store) and judged by a fresh trie; for a quarter the repair runs in a child trie whose changes (plus one insert) are then merged into a parent trie of another version, after which the donor snapshot must still be identical; for a quarter the sync runs in a layered trie followed by SaveChanges to the lower store, which a fresh trie must read completely; for a quarter the donor is a layered store whose own trie has moved on since. non-trivial/distinct = (trie, removal set) pairs with a non-empty removal",
		Cases: func(tier string) int {
			if tier == "thorough" {
				return 120000
			}
			return 4800
		},
		Run:    runC17,
		Floors: map[string]int64{"fat_tries": 50, "removal_sets_above_256_nodes": 35, "removal_sets_deleted_in_one_batch_from_a_store_that_had_served_them": 3000, "missing_node_reports_held_across_a_second_call": 2000, "removal_sets_with_more_than_256_absent_nodes_reachable_through_present_ones": 20, "store_level_repairs": 15000, "store_level_repairs_into_the_lower_level": 2000, "store_level_repairs_with_a_refused_write": 1000, "store_level_repairs_from_a_persistent_donor": 3000, "syncs_after_a_local_delete": 3000, "tries_built_from_version_0": 1500, "handles_with_history_synced_back": 5000, "handles_with_history_synced_back_over_real_deletions": 2000, "tries": 3000, "removal_sets": 50000, "removal:single": 30000, "removal:subtree": 9000, "removal:scattered": 12000, "blocked_lookups": 50000, "repairs_with_foreign_origin": 20000, "tries_with_mixed_origins": 1000, "warm_cache_repairs": 10000, "repaired_child_merged_into_parent": 8000, "synced_state_saved_and_reread": 8000, "repairs_from_layered_donor": 8000},
		Assumptions: []string{
			"the donor is a MemoryNodeDB (map iteration order = arbitrary repair order)",
			"single-node removals are exhaustive up to 24 nodes per trie; other subsets are sampled",
		},
	})
}
