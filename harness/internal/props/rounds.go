package props

import (
	"sync/atomic"
	"bytes"
	"context"
	"encoding/binary"
	"encoding/hex"
	"errors"
	"fmt"
	"sort"
	"strings"

	"github.com/0chain/common/core/util"
	"github.com/linxGnu/grocksdb"

	"verif/harness/internal/fw"
	"verif/harness/internal/model"
	lab "verif/harness/internal/mptlab"
)

// Shared machinery of C04 (saved state complete, survives crashes during save) and
// C05 (dead-node records / pruning never remove live state, also under crashes during prune).

type rTxn struct {
	ops   []c02op
	merge bool
}
type rRound struct {
	version int64
	txns    []rTxn
}

type rSaved struct {
	version int64
	root    []byte
	model   map[string][]byte
	dead    map[string]bool // hex hashes reported dead by this round
}

// genRound draws a round script against the current model and returns the script and the model after it.
func genRound(c *fw.Ctx, g *lab.PathGen, version int64, cur map[string][]byte, graveyard map[string][]byte) (rRound, map[string][]byte) {
	r := c.Rng
	rd := rRound{version: version}
	committed := lab.CopyContent(cur)
	ntx := 1 + r.Intn(4)
	for t := 0; t < ntx; t++ {
		view := lab.CopyContent(committed)
		var tx rTxn
		nops := 1 + r.Intn(6)
		for i := 0; i < nops; i++ {
			live := lab.SortedKeys(view)
			switch k := r.Intn(12); {
			case k < 6:
				p := g.Pick(live)
				v := lab.GenValue(r, int(version)*100+i)
				tx.ops = append(tx.ops, c02op{path: p, val: v})
				view[p] = v
			case k < 9:
				p := g.Pick(live)
				tx.ops = append(tx.ops, c02op{del: true, path: p})
				if v, ok := view[p]; ok {
					graveyard[p] = v
				}
				delete(view, p)
			case k < 10 && len(live) > 0: // delete then re-create identical content inside this transaction
				p := live[r.Intn(len(live))]
				tx.ops = append(tx.ops, c02op{del: true, path: p}, c02op{path: p, val: view[p]})
				c.Count("recreate_same_txn", 1)
			case k < 11 && len(graveyard) > 0: // re-create content deleted earlier (this or an earlier round)
				ks := lab.SortedKeys(graveyard)
				p := ks[r.Intn(len(ks))]
				tx.ops = append(tx.ops, c02op{path: p, val: graveyard[p]})
				view[p] = graveyard[p]
				c.Count("recreate_from_graveyard", 1)
			default: // overwrite with the same value (unchanged re-write)
				if len(live) > 0 {
					p := live[r.Intn(len(live))]
					tx.ops = append(tx.ops, c02op{path: p, val: view[p]})
				}
			}
		}
		tx.merge = r.Intn(4) != 0
		if tx.merge {
			committed = view
		}
		rd.txns = append(rd.txns, tx)
	}
	return rd, committed
}

// flicker makes rounds of their own in which one path of the state is deleted, or put back with the value it had, while
// everything else stays untouched: the nodes around that path are restructured back and forth across rounds.
type flicker struct {
	key string
	val []byte
}

func (f *flicker) round(c *fw.Ctx, version int64, cur map[string][]byte) (rRound, map[string][]byte, bool) {
	if f.key == "" {
		live := lab.SortedKeys(cur)
		if len(live) < 2 {
			return rRound{}, nil, false
		}
		f.key = live[c.Rng.Intn(len(live))]
		f.val = append([]byte(nil), cur[f.key]...)
	}
	next := lab.CopyContent(cur)
	var tx rTxn
	if _, ok := next[f.key]; ok {
		tx.ops = append(tx.ops, c02op{del: true, path: f.key})
		delete(next, f.key)
	} else {
		tx.ops = append(tx.ops, c02op{path: f.key, val: f.val})
		next[f.key] = f.val
	}
	tx.merge = true
	c.Count("rounds_that_only_remove_or_put_back_one_path", 1)
	return rRound{version: version, txns: []rTxn{tx}}, next, true
}

// genFatRound: one merged transaction inserting n values on random 8-character paths over the full hex alphabet,
// so that a single save carries several hundred changed nodes (more than one store batch if the save is chunked).
func genFatRound(c *fw.Ctx, version int64, cur map[string][]byte, n int) (rRound, map[string][]byte) {
	r := c.Rng
	next := lab.CopyContent(cur)
	var tx rTxn
	for i := 0; i < n; i++ {
		b := make([]byte, 8)
		for j := range b {
			b[j] = "0123456789abcdef"[r.Intn(16)]
		}
		v := []byte(fmt.Sprintf("fat%d/%d", version, i))
		tx.ops = append(tx.ops, c02op{path: string(b), val: v})
		next[string(b)] = v
	}
	tx.merge = true
	c.Count("fat_rounds", 1)
	return rRound{version: version, txns: []rTxn{tx}}, next
}

func (rd rRound) String() string {
	if len(rd.txns) == 1 && len(rd.txns[0].ops) > 100 {
		return fmt.Sprintf("round v%d: [fat transaction: %d inserts on random 8-char paths, merge]", rd.version, len(rd.txns[0].ops))
	}
	var sb strings.Builder
	fmt.Fprintf(&sb, "round v%d:", rd.version)
	for i, tx := range rd.txns {
		fmt.Fprintf(&sb, " [t%d", i)
		for _, op := range tx.ops {
			if op.del {
				fmt.Fprintf(&sb, " del %q", op.path)
			} else {
				fmt.Fprintf(&sb, " ins %q=%q", op.path, op.val)
			}
		}
		if tx.merge {
			sb.WriteString(" merge]")
		} else {
			sb.WriteString(" discard]")
		}
	}
	return sb.String()
}

// execRound runs a round against the persistent store: block trie over (memory over pndb), children merged or
// discarded, then SaveChanges(includeDeletes=false) and RecordDeadNodes. Returns the new root and the dead set.
func execRound(pndb *util.PNodeDB, root []byte, rd rRound) (newRoot []byte, dead map[string]bool, err error) {
	P, err := buildRound(pndb, root, rd)
	if err != nil {
		return nil, nil, err
	}
	return saveRound(P, pndb, rd)
}

// every path a round hands to a trie lives in one re-used buffer (single goroutine): the next call overwrites it
var roundPath lab.Scratch

// buildRound executes the round's transactions on a block trie layered over the persistent store (nothing is saved).
func buildRound(pndb *util.PNodeDB, root []byte, rd rRound) (*util.MerklePatriciaTrie, error) {
	P := lab.NewMPT(util.NewLevelNodeDB(util.NewMemoryNodeDB(), pndb, false), rd.version, root)
	for _, tx := range rd.txns {
		C := lab.NewMPT(util.NewLevelNodeDB(util.NewMemoryNodeDB(), P.GetNodeDB(), false), rd.version, P.GetRoot())
		for _, op := range tx.ops {
			if op.del {
				_, _ = C.Delete(roundPath.P(op.path))
			} else if _, ierr := C.Insert(roundPath.P(op.path), &lab.Val{B: op.val}); ierr != nil {
				return nil, fmt.Errorf("insert %q in child: %w", op.path, ierr)
			}
		}
		if tx.merge {
			if merr := P.MergeMPTChanges(C); merr != nil {
				return nil, fmt.Errorf("merge: %w", merr)
			}
		}
		_ = P.GetDeletes() // the block's dead list is looked at between transactions as well (it is only final at the end)
	}
	return P, nil
}

// saveRound: existence probe of the new root (the way a node asks "do I have this state already?"), then
// SaveChanges(includeDeletes=false), RecordDeadNodes, and a read of the saved root through the same store object.
func saveRound(P *util.MerklePatriciaTrie, pndb *util.PNodeDB, rd rRound) (newRoot []byte, dead map[string]bool, err error) {
	if r := P.GetRoot(); len(r) > 0 {
		_, _ = pndb.GetNode(r)
	}
	if rd.version%3 == 2 {
		// the block's changes are first written to a side store (a copy of the block's state changes kept elsewhere) and
		// then to the state store: saving reads the pending set, it does not consume it - both targets must be complete
		side := util.NewMemoryNodeDB()
		if serr := P.SaveChanges(context.Background(), side, false); serr != nil {
			return nil, nil, fmt.Errorf("save into a side store: %w", serr)
		}
		if missing, merr := lab.NewMPT(util.NewLevelNodeDB(side, pndb, false), rd.version, P.GetRoot()).HasMissingNodes(context.Background()); merr != nil || missing {
			return nil, nil, fmt.Errorf("the pending set saved into a side store does not complete the state store: HasMissingNodes = %v, %v", missing, merr)
		}
		atomic.AddInt64(&sideSaves, 1)
	}
	if serr := P.SaveChanges(context.Background(), pndb, false); serr != nil {
		return nil, nil, fmt.Errorf("save: %w", serr)
	}
	dn := P.GetDeletes()
	dead = map[string]bool{}
	for _, n := range dn {
		dead[n.GetHash()] = true
	}
	if rerr := pndb.RecordDeadNodes(dn, rd.version); rerr != nil {
		return P.GetRoot(), dead, fmt.Errorf("record dead nodes: %w", rerr)
	}
	if missing, merr := lab.NewMPT(pndb, rd.version, P.GetRoot()).HasMissingNodes(context.Background()); merr != nil || missing {
		return P.GetRoot(), dead, fmt.Errorf("%w: HasMissingNodes = %v, %v", errSameObjectRead, missing, merr)
	}
	return P.GetRoot(), dead, nil
}

var sideSaves int64 // saves that went to a side store first (per worker process; reported by the checks that use rounds)

var errSameObjectRead = errors.New("the root just saved is not completely readable through the store object it was saved through")

// checkReadable opens a fresh trie on a re-opened store alone at a saved root and compares with the model;
// additionally reads the stored bytes with the harness' own parser.
func checkReadable(disk string, s rSaved) string {
	p, err := util.NewPNodeDB(disk, "")
	if err != nil {
		return "cannot re-open store: " + err.Error()
	}
	defer p.Close()
	F := lab.NewMPT(p, s.version, s.root)
	missing, err := F.HasMissingNodes(context.Background())
	if err != nil || missing {
		return fmt.Sprintf("root of v%d: HasMissingNodes = %v, %v", s.version, missing, err)
	}
	if f := lab.CheckMap(F, s.model, nil); f != "" {
		return fmt.Sprintf("root of v%d: %s", s.version, f)
	}
	snap := grocksdb.Control(disk).Snapshot()["default"]
	got, _, rerr := model.ReadContent(s.root, func(k []byte) []byte { return snap[string(k)] })
	if rerr != nil {
		return fmt.Sprintf("root of v%d: stored bytes do not read back: %v", s.version, rerr)
	}
	if !lab.EqualContent(got, s.model) {
		return fmt.Sprintf("root of v%d: stored bytes read back as %s, saved content was %s", s.version, lab.FmtContent(got), lab.FmtContent(s.model))
	}
	return ""
}

func deadRecordVersions(disk string) []int64 {
	var vs []int64
	for k := range grocksdb.Control(disk).Snapshot()["dead_nodes"] {
		if len(k) == 8 {
			vs = append(vs, int64(binary.BigEndian.Uint64([]byte(k))))
		}
	}
	sort.Slice(vs, func(i, j int) bool { return vs[i] < vs[j] })
	return vs
}

// ---------------------------------------------------------------- C04

// c04longLived: one block-state trie object lives through all rounds of the history (the version is advanced with
// SetVersion, the pending change set keeps growing and is saved again every round, sometimes twice in a row): after
// every save every root saved so far must be complete on the store alone.
func c04longLived(c *fw.Ctx) { longLivedHistory(c, "C04", nil) }

// longLivedHistory runs the long-lived-trie history; after every save it re-reads every saved root from the store alone
// and calls sweep (if given) on the store.
func longLivedHistory(c *fw.Ctx, tag string, sweep func(disk string, pndb *util.PNodeDB) bool) {
	r := c.Rng
	g := lab.NewPathGen(r)
	disk := fmt.Sprintf("/verif-stub/%s/%d/%d/long", tag, c.Seed, c.Idx)
	defer grocksdb.DropDisk(disk)
	pndb, err := util.NewPNodeDB(disk, "")
	if err != nil {
		panic(err)
	}
	defer pndb.Close()
	cur := map[string][]byte{}
	grave := map[string][]byte{}
	var saved []rSaved
	P := lab.NewMPT(util.NewLevelNodeDB(util.NewMemoryNodeDB(), pndb, false), 1, nil)
	nrounds := 3 + r.Intn(6)
	for v := int64(1); v <= int64(nrounds); v++ {
		P.SetVersion(util.Sequence(v))
		rd, next := genRound(c, g, v, cur, grave)
		c.Tracef("%s", rd.String())
		for _, tx := range rd.txns {
			C := lab.NewMPT(util.NewLevelNodeDB(util.NewMemoryNodeDB(), P.GetNodeDB(), false), v, P.GetRoot())
			for _, op := range tx.ops {
				if op.del {
					_, _ = C.Delete(roundPath.P(op.path))
				} else if _, ierr := C.Insert(roundPath.P(op.path), &lab.Val{B: op.val}); ierr != nil {
					c.Violate("", "long-lived trie, v%d: insert %q in a child failed: %v", v, op.path, ierr)
					return
				}
			}
			if tx.merge {
				if merr := P.MergeMPTChanges(C); merr != nil {
					c.Violate("", "long-lived trie, v%d: merge failed: %v", v, merr)
					return
				}
			}
		}
		nsaves := 1 + r.Intn(2)
		for k := 0; k < nsaves; k++ {
			if serr := P.SaveChanges(context.Background(), pndb, false); serr != nil {
				c.Violate("", "long-lived trie, v%d: SaveChanges failed: %v", v, serr)
				return
			}
		}
		saved = append(saved, rSaved{version: v, root: append([]byte(nil), P.GetRoot()...), model: lab.CopyContent(next)})
		cur = next
		for _, s := range saved {
			if f := checkReadable(disk, s); f != "" {
				c.Violate("", "one trie object used for all rounds (SetVersion per round, %d save(s) in this round): after saving v%d: %s\nhistory: %s", nsaves, v, f, strings.Join(c.Trace(), "\n"))
				return
			}
			c.Count("roots_reread", 1)
		}
		if sweep != nil && !sweep(disk, pndb) {
			return
		}
		c.Count("rounds_on_a_long_lived_trie", 1)
	}
	// the way a finalised state is used: the saved trie is rebased onto the persistent store (the memory level is dropped);
	// it must read the saved content, and what it writes from now on goes to the store directly
	P.SetNodeDB(pndb)
	if f := lab.CheckMap(P, cur, nil); f != "" {
		c.Violate("", "long-lived trie rebased onto the persistent store after its last save: %s\nhistory: %s", f, strings.Join(c.Trace(), "\n"))
		return
	}
	if _, ierr := P.Insert(util.Path("0a0b0c0d"), &lab.Val{B: []byte("after-rebase")}); ierr != nil {
		c.Violate("", "insert on the rebased trie failed: %v", ierr)
		return
	}
	after := lab.CopyContent(cur)
	after["0a0b0c0d"] = []byte("after-rebase")
	if f := checkReadable(disk, rSaved{version: int64(nrounds), root: append([]byte(nil), P.GetRoot()...), model: after}); f != "" {
		c.Violate("", "a write through the rebased trie is not complete on the store: %s", f)
		return
	}
	c.Count("long_lived_tries_rebased_onto_the_store", 1)
	c.Count("long_lived_trie_histories", 1)
	c.Distinct("nontrivial", fw.Hash64("long", c.Idx, len(saved)))
}

// c04largeValues: values at and just below the size limit (the limit applies to the value; the stored record is a little
// longer) are saved and must be readable from the store alone.
func c04largeValues(c *fw.Ctx) {
	disk := fmt.Sprintf("/verif-stub/C04/%d/%d/large", c.Seed, c.Idx)
	defer grocksdb.DropDisk(disk)
	pndb, err := util.NewPNodeDB(disk, "")
	if err != nil {
		panic(err)
	}
	defer pndb.Close()
	P := lab.NewMPT(util.NewLevelNodeDB(util.NewMemoryNodeDB(), pndb, false), 1, nil)
	model := map[string][]byte{}
	for i, sz := range []int{util.MPTMaxAllowableNodeSize, util.MPTMaxAllowableNodeSize - 1, util.MPTMaxAllowableNodeSize - 60, 1 << 20} {
		v := bytes.Repeat([]byte{byte('a' + i)}, sz)
		p := fmt.Sprintf("0%d0a", i)
		if _, ierr := P.Insert(util.Path(p), &lab.Val{B: v}); ierr != nil {
			c.Violate("", "a value of %d bytes (limit %d) was refused: %v", sz, util.MPTMaxAllowableNodeSize, ierr)
			return
		}
		model[p] = v
	}
	if serr := P.SaveChanges(context.Background(), pndb, false); serr != nil {
		c.Violate("", "saving values at the size limit failed: %v", serr)
		return
	}
	F := lab.NewMPT(pndb, 1, P.GetRoot())
	for p, v := range model {
		d, gerr := F.GetNodeValueRaw(util.Path(p))
		if gerr != nil || !bytes.Equal(d, v) {
			c.Violate("", "a saved value of %d bytes (limit %d) read from the store alone: %d bytes, %v", len(v), util.MPTMaxAllowableNodeSize, len(d), gerr)
			return
		}
	}
	c.Count("values_at_the_size_limit_saved_and_reread", int64(len(model)))
	c.Distinct("nontrivial", fw.Hash64("large", c.Idx))
}

func runC04(c *fw.Ctx) {
	if c.Idx == 7 {
		c04largeValues(c)
		return
	}
	if (c.Idx/16+c.Idx)%6 == 4 {
		c04longLived(c)
		return
	}
	r := c.Rng
	g := lab.NewPathGen(r)
	disk := fmt.Sprintf("/verif-stub/C04/%d/%d/main", c.Seed, c.Idx)
	tmp := fmt.Sprintf("/verif-stub/C04/%d/%d/tmp", c.Seed, c.Idx)
	defer grocksdb.DropDisk(disk)
	defer grocksdb.DropDisk(tmp)
	pndb, err := util.NewPNodeDB(disk, "")
	if err != nil {
		panic(err)
	}
	ctl := grocksdb.Control(disk)
	cur := map[string][]byte{}
	grave := map[string][]byte{}
	var root []byte
	var saved []rSaved
	pruned := int64(0)
	nrounds := 3 + r.Intn(8)
	fail := func(format string, a ...any) {
		c.Violate("", "%s\nhistory: %s", fmt.Sprintf(format, a...), strings.Join(c.Trace(), "\n"))
	}
	retained := func() []rSaved {
		var o []rSaved
		for _, s := range saved {
			if s.version >= pruned {
				o = append(o, s)
			}
		}
		return o
	}
	crashPoints := 0
	flick, fl := (c.Idx/16+c.Idx)%4 == 1, &flicker{}
	fatAt := int64(-1)
	if r.Intn(32) == 0 { // chosen by the case PRNG so that fat histories spread over all worker shards
		fatAt = 1 + int64(r.Intn(nrounds))
	}
	for v := int64(1); v <= int64(nrounds); v++ {
		rd, next := genRound(c, g, v, cur, grave)
		if flick && v >= 2 && v != fatAt && r.Intn(2) == 0 {
			if frd, fnext, ok := fl.round(c, v, cur); ok {
				rd, next = frd, fnext
			}
		}
		if v == fatAt {
			rd, next = genFatRound(c, v, cur, []int{300, 450, 700, 1100}[r.Intn(4)]+r.Intn(7))
		}
		c.Tracef("%s", rd.String())
		grocksdb.CopyDisk(disk, tmp+"/pre")
		w0 := ctl.Writes()
		newRoot, dead, err := execRound(pndb, root, rd)
		if err != nil {
			fail("round v%d failed without any fault injected: %v", v, err)
			grocksdb.DropDisk(tmp + "/pre")
			return
		}
		W := ctl.Writes() - w0
		c.Max("save_stream_writes", W)
		c.Count("rounds", 1)
		c.Count("saves_preceded_by_a_save_into_a_side_store", atomic.SwapInt64(&sideSaves, 0))
		saved = append(saved, rSaved{version: v, root: append([]byte(nil), newRoot...), model: lab.CopyContent(next), dead: dead})
		// completeness of every retained root on a re-opened store
		pndb.Close()
		for _, s := range retained() {
			if f := checkReadable(disk, s); f != "" {
				fail("after saving v%d (pruned below %d): %s", v, pruned, f)
				grocksdb.DropDisk(tmp + "/pre")
				return
			}
			c.Count("roots_reread", 1)
		}
		// crash enumeration: every prefix of the save's write stream
		for i := int64(0); i <= W; i++ {
			work := fmt.Sprintf("%s/crash-%d", tmp, i)
			grocksdb.CopyDisk(tmp+"/pre", work)
			cp, _ := util.NewPNodeDB(work, "")
			wc := grocksdb.Control(work)
			wc.CrashAfterWrites(i)
			_, _, cerr := execRound(cp, root, rd)
			if i < W && cerr == nil {
				fail("v%d: store crashed after %d of %d writes but the round reported success", v, i, W)
			}
			cp.Close()
			wc.Restart()
			// (a0) the failure seen as a transient write error: the same trie and store objects try again once the
			// store accepts writes; a save that then reports success must have saved the state completely
			if i < W {
				work2 := fmt.Sprintf("%s/retry-%d", tmp, i)
				grocksdb.CopyDisk(tmp+"/pre", work2)
				tp, _ := util.NewPNodeDB(work2, "")
				if P2, berr := buildRound(tp, root, rd); berr == nil {
					wc2 := grocksdb.Control(work2)
					wc2.CrashAfterWrites(i)
					_, _, e1 := saveRound(P2, tp, rd)
					wc2.Restart()
					if e1 != nil {
						if rr2, _, e2 := saveRound(P2, tp, rd); e2 == nil {
							tp.Close()
							if !bytes.Equal(rr2, newRoot) {
								fail("v%d: the save retried on the same trie after a write failure at %d/%d gives root %x, expected %x", v, i, W, rr2, newRoot)
							} else if f := checkReadable(work2, saved[len(saved)-1]); f != "" {
								fail("v%d: the save failed at write %d/%d, was retried on the same trie and store objects and reported success, but the state is incomplete: %s", v, i, W, f)
							}
							c.Count("same_object_save_retries", 1)
						} else {
							tp.Close()
							if errors.Is(e2, errSameObjectRead) {
								fail("v%d: save retried after a write failure at %d/%d: %v", v, i, W, e2)
							}
							c.Count("same_object_save_retries_refused", 1)
						}
					} else {
						tp.Close()
					}
				} else {
					tp.Close()
				}
				grocksdb.DropDisk(work2)
				if c.Violated() {
					grocksdb.DropDisk(work)
					grocksdb.DropDisk(tmp + "/pre")
					return
				}
			}
			// (a1) exactly one write of the save is refused (nothing of it applied) and the store keeps working: if the round
			// nevertheless reports success, what it saved must be complete
			if i < W {
				work4 := fmt.Sprintf("%s/onefail-%d", tmp, i)
				grocksdb.CopyDisk(tmp+"/pre", work4)
				fp, _ := util.NewPNodeDB(work4, "")
				grocksdb.Control(work4).FailWrite(i)
				_, _, ferr := execRound(fp, root, rd)
				fp.Close()
				grocksdb.Control(work4).Restart()
				if ferr != nil && errors.Is(ferr, errSameObjectRead) {
					// the save itself reported success although one of its writes was refused, and the state is incomplete
					fail("v%d: write %d of %d of the save was refused by the store, SaveChanges still reported success: %v", v, i+1, W, ferr)
				}
				if ferr == nil {
					if f := checkReadable(work4, saved[len(saved)-1]); f != "" {
						fail("v%d: write %d of %d of the save was refused by the store, the round still reported success, and the saved state is incomplete: %s", v, i+1, W, f)
					}
					c.Count("rounds_reporting_success_despite_a_refused_write", 1)
				}
				c.Count("single_refused_writes", 1)
				grocksdb.DropDisk(work4)
				if c.Violated() {
					grocksdb.DropDisk(work)
					grocksdb.DropDisk(tmp + "/pre")
					return
				}
			}
			// (a) every previously saved, unpruned root still completely readable
			for _, s := range retained() {
				if s.version == v {
					continue
				}
				if f := checkReadable(work, s); f != "" {
					fail("crash after %d/%d writes of the save of v%d damaged an earlier root: %s", i, W, v, f)
					grocksdb.DropDisk(work)
					grocksdb.DropDisk(tmp + "/pre")
					return
				}
			}
			// (b) re-execute and re-save after restart
			rp, _ := util.NewPNodeDB(work, "")
			rroot, _, rerr := execRound(rp, root, rd)
			rp.Close()
			if rerr != nil {
				fail("re-executing v%d after a crash at write %d/%d failed: %v", v, i, W, rerr)
			} else if !bytes.Equal(rroot, newRoot) {
				fail("re-executing v%d after a crash at write %d/%d gives root %x, the uncrashed execution %x", v, i, W, rroot, newRoot)
			} else if f := checkReadable(work, saved[len(saved)-1]); f != "" {
				fail("state re-saved after a crash at write %d/%d of v%d is incomplete: %s", i, W, v, f)
			} else {
				for _, s := range retained() {
					if f := checkReadable(work, s); f != "" {
						fail("after crash at %d/%d of v%d and re-save, an earlier root is damaged: %s", i, W, v, f)
						break
					}
				}
			}
			grocksdb.DropDisk(work)
			crashPoints++
			c.Count("crash_points", 1)
			c.Distinct("nontrivial", fw.Hash64(c.Idx, v, i, hex.EncodeToString(newRoot)))
			if c.Violated() {
				grocksdb.DropDisk(tmp + "/pre")
				return
			}
		}
		grocksdb.DropDisk(tmp + "/pre")
		pndb, _ = util.NewPNodeDB(disk, "")
		root, cur = newRoot, next
		// pruning in between (the mode this save pairs with)
		if r.Intn(3) == 0 {
			pv := pruned + int64(r.Intn(int(v-pruned)+1))
			c.Tracef("prune below %d", pv)
			if perr := pndb.PruneBelowVersion(context.Background(), pv); perr != nil {
				fail("prune below %d failed: %v", pv, perr)
				return
			}
			if pv > pruned {
				pruned = pv
			}
			c.Count("prunes", 1)
			pndb.Close()
			for _, s := range retained() {
				if f := checkReadable(disk, s); f != "" {
					fail("after pruning below %d: %s", pv, f)
					return
				}
			}
			pndb, _ = util.NewPNodeDB(disk, "")
		}
	}
	pndb.Close()
	c.Count("histories", 1)
	if c.Idx < 2 {
		tr := c.Trace()
		if len(tr) > 12 {
			tr = tr[:12]
		}
		c.Sample(map[string]any{"rounds": tr, "crash_points_enumerated": crashPoints})
	}
}

// ---------------------------------------------------------------- C05

func runC05(c *fw.Ctx) {
	r := c.Rng
	g := lab.NewPathGen(r)
	disk := fmt.Sprintf("/verif-stub/C05/%d/%d/main", c.Seed, c.Idx)
	tmp := fmt.Sprintf("/verif-stub/C05/%d/%d/tmp", c.Seed, c.Idx)
	defer grocksdb.DropDisk(disk)
	pndb, err := util.NewPNodeDB(disk, "")
	if err != nil {
		panic(err)
	}
	ctl := grocksdb.Control(disk)
	cur := map[string][]byte{}
	grave := map[string][]byte{}
	var root []byte
	var saved []rSaved
	pruned := int64(0)
	nrounds := 4 + r.Intn(9)
	flick, fl := (c.Idx/16+c.Idx)%4 == 1, &flicker{}
	big := !c.Quick() && (c.Idx/16+c.Idx)%40 == 0 // long histories with >1000 accumulated dead nodes: several delete batches
	if big {
		nrounds = 60
	}
	fail := func(format string, a ...any) {
		tr := c.Trace()
		if len(tr) > 30 {
			tr = tr[len(tr)-30:]
		}
		c.Violate("", "%s\nhistory (tail): %s", fmt.Sprintf(format, a...), strings.Join(tr, "\n"))
	}
	retained := func(below int64) []rSaved {
		var o []rSaved
		for _, s := range saved {
			if s.version >= below {
				o = append(o, s)
			}
		}
		return o
	}
	snapGet := func(d string) func([]byte) []byte {
		snap := grocksdb.Control(d).Snapshot()["default"]
		return func(k []byte) []byte { return snap[string(k)] }
	}
	for v := int64(1); v <= int64(nrounds); v++ {
		if !big && r.Intn(6) == 0 {
			// a competing block of the same round is executed and saved first (same parent state, same version) and then
			// superseded: its nodes and its dead-node record must not endanger the block that stays
			ag := lab.CopyContent(grave)
			ard, _ := genRound(c, g, v, cur, ag)
			c.Tracef("competing block, saved and then superseded: %s", ard.String())
			if _, _, aerr := execRound(pndb, root, ard); aerr != nil {
				fail("competing block at v%d failed without any fault injected: %v", v, aerr)
				return
			}
			c.Count("competing_blocks_saved_at_the_same_version", 1)
		}
		rd, next := genRound(c, g, v, cur, grave)
		if big { // make rounds fat so that dead nodes accumulate
			for k := 0; k < 6; k++ {
				extra, n2 := genRound(c, g, v, next, grave)
				rd.txns = append(rd.txns, extra.txns...)
				next = n2
			}
			// later transactions were generated against the merged state of the earlier ones only if those merge
			for i := range rd.txns {
				rd.txns[i].merge = true
			}
			next = replayModel(cur, rd)
		}
		if flick && !big && v >= 2 && r.Intn(2) == 0 {
			if frd, fnext, ok := fl.round(c, v, cur); ok {
				rd, next = frd, fnext
			}
		}
		c.Tracef("%s", rd.String())
		newRoot, dead, err := execRound(pndb, root, rd)
		if err != nil {
			fail("round v%d failed without any fault injected: %v", v, err)
			return
		}
		c.Count("rounds", 1)
		c.Count("saves_preceded_by_a_save_into_a_side_store", atomic.SwapInt64(&sideSaves, 0))
		c.Count("dead_nodes_reported", int64(len(dead)))
		saved = append(saved, rSaved{version: v, root: append([]byte(nil), newRoot...), model: lab.CopyContent(next), dead: dead})
		root, cur = newRoot, next
		// Oracle 1: dead sets of this and all earlier rounds are disjoint from what the new root reaches
		reach, absent, rerr := model.ReachSet(newRoot, snapGet(disk))
		if rerr != nil || len(absent) > 0 {
			fail("root of v%d is not completely present after save (absent %d, err %v)", v, len(absent), rerr)
			return
		}
		for _, s := range saved {
			for h := range s.dead {
				hb, _ := hex.DecodeString(h)
				if reach[string(hb)] {
					fail("node %s reported dead by round v%d is reachable from the root saved at v%d", h, s.version, v)
					return
				}
			}
			c.Count("dead_vs_reach_checks", 1)
		}
		// Oracle 2: prune at random points, with crash enumeration over its write stream
		if r.Intn(3) == 0 || (big && v == int64(nrounds)) {
			pv := pruned + int64(r.Intn(int(v-pruned)+2))
			if big {
				pv = v
			}
			oldPruned := pruned
			allowed := map[string]bool{}
			for _, s := range saved {
				if s.version < pv {
					for h := range s.dead {
						allowed[h] = true
					}
				}
			}
			grocksdb.CopyDisk(disk, tmp+"/pre")
			ctl.Trace(true)
			w0 := ctl.Writes()
			c.Tracef("prune below %d", pv)
			if perr := pndb.PruneBelowVersion(context.Background(), pv); perr != nil {
				fail("prune below %d failed: %v", pv, perr)
				return
			}
			W := ctl.Writes() - w0
			log := ctl.Log()
			ctl.Trace(false)
			c.Max("prune_stream_writes", W)
			c.Count("prunes", 1)
			nodeDeletes := 0
			for _, ev := range log {
				for _, op := range ev.Ops {
					if op.CF == "default" {
						if !op.Delete {
							fail("prune below %d wrote a node", pv)
							return
						}
						nodeDeletes++
						if !allowed[hex.EncodeToString(op.Key)] {
							fail("prune below %d deleted node %x which no round below %d recorded as dead", pv, op.Key, pv)
							return
						}
					}
				}
			}
			c.Count("nodes_pruned", int64(nodeDeletes))
			if pv > pruned {
				pruned = pv
			}
			for _, dv := range deadRecordVersions(disk) {
				if dv < pv {
					fail("dead-node record of v%d survives prune below %d", dv, pv)
					return
				}
			}
			have := map[int64]bool{}
			for _, dv := range deadRecordVersions(disk) {
				have[dv] = true
			}
			for _, s := range saved {
				if s.version >= pruned && !have[s.version] {
					fail("dead-node record of v%d (not below the prune version %d) is gone", s.version, pruned)
					return
				}
			}
			pndb.Close()
			for _, s := range retained(pruned) {
				if f := checkReadable(disk, s); f != "" {
					fail("after pruning below %d: %s", pv, f)
					return
				}
				c.Count("roots_reread", 1)
			}
			// crash enumeration over the prune's write stream
			for i := int64(0); i <= W; i++ {
				work := fmt.Sprintf("%s/crash-%d", tmp, i)
				grocksdb.CopyDisk(tmp+"/pre", work)
				cp, _ := util.NewPNodeDB(work, "")
				wc := grocksdb.Control(work)
				wc.CrashAfterWrites(i)
				cerr := cp.PruneBelowVersion(context.Background(), pv)
				if i < W && cerr == nil {
					fail("store crashed after %d of %d prune writes but PruneBelowVersion reported success", i, W)
				}
				cp.Close()
				wc.Restart()
				if i == 0 && cerr != nil && pv > oldPruned {
					// the prune failed before it wrote anything and the operator settles for a lower version on the SAME store
					// object: nothing of the failed attempt may leak into it - every root not below the lower version stays readable
					work3 := fmt.Sprintf("%s/lower-%d", tmp, i)
					grocksdb.CopyDisk(tmp+"/pre", work3)
					lp, _ := util.NewPNodeDB(work3, "")
					wc3 := grocksdb.Control(work3)
					wc3.CrashAfterWrites(0)
					e1 := lp.PruneBelowVersion(context.Background(), pv)
					wc3.Restart()
					pv2 := oldPruned + int64(c.Rng.Intn(int(pv-oldPruned)))
					if e1 != nil {
						if e2 := lp.PruneBelowVersion(context.Background(), pv2); e2 == nil {
							for _, s := range saved {
								if s.version >= pv2 && s.version >= oldPruned {
									if f := checkReadable(work3, s); f != "" {
										fail("prune below %d failed before its first write, prune below %d was then run on the same store object: %s", pv, pv2, f)
										break
									}
								}
							}
							c.Count("lower_prunes_after_a_failed_prune", 1)
						}
					}
					lp.Close()
					grocksdb.DropDisk(work3)
				}
				for _, s := range retained(pruned) {
					if f := checkReadable(work, s); f != "" {
						fail("crash after %d/%d writes of prune below %d: %s", i, W, pv, f)
						break
					}
				}
				rp, _ := util.NewPNodeDB(work, "")
				if perr := rp.PruneBelowVersion(context.Background(), pv); perr != nil {
					fail("re-running prune below %d after a crash at %d/%d failed: %v", pv, i, W, perr)
				}
				rp.Close()
				for _, s := range retained(pruned) {
					if f := checkReadable(work, s); f != "" {
						fail("after crash at %d/%d and re-run of prune below %d: %s", i, W, pv, f)
						break
					}
				}
				for _, dv := range deadRecordVersions(work) {
					if dv < pv {
						fail("after crash at %d/%d and re-run of prune below %d the dead-node record of v%d remains", i, W, pv, dv)
					}
				}
				grocksdb.DropDisk(work)
				c.Count("crash_points", 1)
				c.Distinct("nontrivial", fw.Hash64(c.Idx, v, pv, i))
				if c.Violated() {
					grocksdb.DropDisk(tmp + "/pre")
					return
				}
			}
			grocksdb.DropDisk(tmp + "/pre")
			pndb, _ = util.NewPNodeDB(disk, "")
		}
	}
	pndb.Close()
	c.Count("histories", 1)
	if c.Idx < 2 {
		tr := c.Trace()
		if len(tr) > 12 {
			tr = tr[:12]
		}
		c.Sample(map[string]any{"rounds_and_prunes": tr})
	}
}

func replayModel(start map[string][]byte, rd rRound) map[string][]byte {
	m := lab.CopyContent(start)
	for _, tx := range rd.txns {
		if !tx.merge {
			continue
		}
		for _, op := range tx.ops {
			if op.del {
				delete(m, op.path)
			} else {
				m[op.path] = op.val
			}
		}
	}
	return m
}

func init() {
	fw.Register(&fw.Prop{
		ID:    "C04",
		Level: "fault_enumeration",
		Rule: "each case is a history of 3..10 rounds on a persistent store (real PNodeDB over the logging/crashing grocksdb stand-in). A round = block trie layered over the store at the previous saved root, 1..4 child transactions (1..6 inserts/deletes each, including delete-then-recreate of " +
			"identical content, re-creation of content deleted in earlier rounds, unchanged re-writes) merged or discarded, then an existence probe of the new root on the store, SaveChanges(includeDeletes=false), RecordDeadNodes and a completeness read of the saved root through the same store object; random PruneBelowVersion in between; about every 32nd history contains one fat round (300..1100 inserts: several hundred to more than a thousand changed nodes in one save). After each save every retained root is re-read on a re-opened store " +
			"(HasMissingNodes, lookups, Iterate, raw stored bytes through the harness' parser). For EVERY prefix length i=0..W of the save's physical write stream the round is re-executed from a copy of the pre-round disk with the store crashing after i writes; after restart every earlier " +
			"retained root must be fully readable and re-executing + re-saving the round must give the same root and a complete state; the same point is also played with exactly one refused write (a round that still reports success must have saved completely) and as a transient write error (the same trie and store objects retry the save once the store accepts writes again: a retry that reports success must leave a complete state). Case 7 saves values of exactly the size limit, one byte and 60 bytes less, and reads them from the store alone. A sixth of the histories instead keep ONE block-state trie object through all rounds (SetVersion per round, children merged into it, the growing pending set saved again every round, sometimes twice in a row) and re-read every saved root from the store alone after every save; at the end the trie is rebased onto the persistent store (SetNodeDB), must read the saved content, and a write through it must be complete on the store. non-trivial/distinct = distinct (history, round, crash index, root) points",
		Cases: func(tier string) int {
			if tier == "thorough" {
				return 32000
			}
			return 2000
		},
		Run:        runC04,
		Floors:     map[string]int64{"saves_preceded_by_a_save_into_a_side_store": 10000, "rounds_that_only_remove_or_put_back_one_path": 600, "histories": 1500, "long_lived_trie_histories": 250, "values_at_the_size_limit_saved_and_reread": 4, "rounds_on_a_long_lived_trie": 1200, "rounds": 9000, "crash_points": 30000, "roots_reread": 30000, "prunes": 1000, "recreate_same_txn": 1000, "recreate_from_graveyard": 1000, "max:save_stream_writes": 2, "fat_rounds": 30, "same_object_save_retries": 15000, "single_refused_writes": 15000},
		Exhaustive: nil,
		Assumptions: []string{
			"the store is modelled as a sorted KV store with atomic write batches and process-crash durability of completed writes (wo.SetSync(false)); OS-crash loss of unsynced WAL is out of scope",
			"crash points are exhaustive within each history's save stream (W+1 prefixes per round); histories are sampled",
		},
	})
	fw.Register(&fw.Prop{
		ID:    "C05",
		Level: "fault_enumeration",
		Rule: "(One round in six is preceded by a competing block of the same version - executed, saved and recorded from the same parent state, then superseded by the block that stays. The block trie's dead list is read between transactions as well as at the end; a prune that fails before its first write is followed, on the same store object, by a prune below a lower version, after which every root not below that version must be readable.) same round generator as C04 (4..12 rounds; thorough adds 60-round histories whose prune issues several delete batches). After each round: the dead sets reported by this and every earlier round must be disjoint from the node set reachable from the new root " +
			"(reachability computed by the harness from raw stored bytes). At random points PruneBelowVersion(v) with random v: from the stand-in's write log every node key deleted must be in the union of dead sets of rounds < v, no node is written, records < v are gone and records >= v remain, " +
			"every root saved at a version >= v is completely readable. For EVERY prefix i=0..W of the prune's write stream: crash after i writes, restart, retained roots readable, re-run prune, retained roots readable, records < v gone. " +
			"non-trivial/distinct = distinct (history, round, prune version, crash index) points",
		Cases: func(tier string) int {
			if tier == "thorough" {
				return 48000
			}
			return 3200
		},
		Run:    runC05,
		Floors: map[string]int64{"rounds_that_only_remove_or_put_back_one_path": 1200, "histories": 3000, "rounds": 15000, "prunes": 3000, "crash_points": 8000, "dead_vs_reach_checks": 50000, "nodes_pruned": 5000, "dead_nodes_reported": 20000, "max:prune_stream_writes": 2, "lower_prunes_after_a_failed_prune": 800, "competing_blocks_saved_at_the_same_version": 2500},
		Assumptions: []string{
			"same storage model as C04 (atomic batches, completed writes survive a process crash)",
			"GetDeletes() of the block trie is the round's dead set, recorded under the round's version as the node does it",
		},
	})
}
