package props

import (
	"bytes"
	"context"
	"encoding/hex"
	"fmt"
	"sort"
	"strings"

	"github.com/0chain/common/core/statecache"
	"github.com/0chain/common/core/util"
	"github.com/linxGnu/grocksdb"

	"verif/harness/internal/fw"
	"verif/harness/internal/model"
	lab "verif/harness/internal/mptlab"
)

// C03 — child tries are isolated transactions: merge publishes, discard / rejected merge leave no trace.

type c03trie struct {
	name      string
	t         *util.MerklePatriciaTrie
	model     map[string][]byte
	parent    *c03trie
	tc        *statecache.TransactionCache
	stale     bool // the parent moved on since this trie was opened
	closed    bool
	nChanges  int
	openRoot  []byte
	children  []*c03trie
	hasWrites bool
}

// observe returns the observation tuple of a trie as one canonical string:
// root, content by Iterate, pending changes {hash(New) -> Encode(New), hash(Old)}, pending deletes, start root.
func c03observe(t *c03trie) string {
	var sb strings.Builder
	root, changes, deletes, start := t.t.GetChanges()
	fmt.Fprintf(&sb, "root=%x start=%x\n", root, start)
	content, err := lab.IterAll(t.t)
	if err != nil {
		fmt.Fprintf(&sb, "iterate-error=%v\n", err)
	}
	for _, k := range lab.SortedKeys(content) {
		fmt.Fprintf(&sb, "C %q=%x\n", k, content[k])
	}
	var lines []string
	for _, ch := range changes {
		o := ""
		if ch.Old != nil {
			o = ch.Old.GetHash()
		}
		lines = append(lines, fmt.Sprintf("N %s old=%s enc=%x", ch.New.GetHash(), o, ch.New.Encode()))
	}
	for _, d := range deletes {
		lines = append(lines, "D "+d.GetHash())
	}
	sort.Strings(lines)
	sb.WriteString(strings.Join(lines, "\n"))
	return sb.String()
}

// c03integrity checks pending-change integrity of a trie: every recorded change is keyed by the hash of its own
// encoding and the node stored in the trie's current level under that key has the same encoding.
func c03integrity(c *fw.Ctx, t *c03trie) string {
	cc, ok := t.t.ChangeCollector.(*util.ChangeCollector)
	if !ok {
		return ""
	}
	lndb, _ := t.t.GetNodeDB().(*util.LevelNodeDB)
	_, changes, _, _ := t.t.GetChanges()
	byHash := map[string]*util.NodeChange{}
	for _, ch := range changes {
		byHash[ch.New.GetHash()] = ch
	}
	_ = cc
	for h, ch := range byHash {
		enc := ch.New.Encode()
		pn, err := model.ParseStored(enc)
		if err != nil {
			return fmt.Sprintf("pending change %s has an unparsable encoding", h)
		}
		if hex.EncodeToString(pn.Hash()) != h {
			return fmt.Sprintf("pending change recorded under %s re-hashes (from its encoding) to %x", h, pn.Hash())
		}
		if lndb != nil {
			key, _ := hex.DecodeString(h)
			sn, err := lndb.GetCurrent().GetNode(key)
			if err != nil || sn == nil {
				return fmt.Sprintf("pending change %s is not in the trie's current store level (%v)", h, err)
			}
			if !bytes.Equal(sn.Encode(), enc) {
				return fmt.Sprintf("node stored under %s encodes to %x, the pending change to %x", h, sn.Encode(), enc)
			}
		}
	}
	// the collector against reachability: whatever the current root reaches is either available below this trie's own
	// level or among the pending new nodes (a save / merge of the pending set would otherwise be incomplete); no node
	// recorded as deleted is reachable from the current root. (The delete set may also name intermediate nodes that never
	// existed below - a node created by one merged child and replaced by the next - which is harmless and not judged.)
	// Views of a trie with a stale ancestor are not judged.
	judged := true
	for a := t; a != nil; a = a.parent {
		if a.stale || a.closed {
			judged = false
		}
		// a trie whose parent has written since it was opened is stale as well (its merge will be refused): the parent may
		// have dropped nodes of the root it was opened at
		if a.parent != nil && !bytes.Equal(a.parent.t.GetRoot(), a.openRoot) {
			judged = false
		}
	}
	if lndb != nil && judged {
		c.Count("collector_vs_reachability_checks", 1)
		reach, missing := lab.Walk(t.t.GetNodeDB(), t.t.GetRoot())
		if len(missing) > 0 {
			return fmt.Sprintf("%d node(s) reachable from the current root are absent from the trie's store (first %x)", len(missing), missing[0])
		}
		reachable := map[string]bool{}
		for _, n := range reach {
			h := hex.EncodeToString(n.Key)
			reachable[h] = true
			if _, pending := byHash[h]; pending {
				continue
			}
			if bn, err := lndb.GetPrev().GetNode(n.Key); err != nil || bn == nil {
				return fmt.Sprintf("node %s at %q is reachable from the current root, not available below this trie's level and not among its pending changes", h, n.Path)
			}
		}
		for _, d := range t.t.GetDeletes() {
			h := d.GetHash()
			if reachable[h] {
				return fmt.Sprintf("node %s is recorded as deleted but reachable from the current root", h)
			}
		}
	}
	return ""
}

// every path a block history hands to a trie lives in one re-used buffer (single goroutine): the next call overwrites it
var c03path lab.Scratch

func runC03(c *fw.Ctx) {
	r := c.Rng
	g := lab.NewPathGen(r)
	realistic := c.Idx%2 == 1
	persistentBase := c.Idx%4 >= 2
	// base state
	var base util.NodeDB
	diskPath := fmt.Sprintf("/verif-stub/C03/%d/%d", c.Seed, c.Idx)
	if persistentBase {
		p, err := util.NewPNodeDB(diskPath, "")
		if err != nil {
			panic(err)
		}
		base = p
		defer func() { p.Close(); grocksdb.DropDisk(diskPath) }()
	} else {
		base = util.NewMemoryNodeDB()
	}
	baseModel := map[string][]byte{}
	m0 := lab.NewMPT(base, 1, nil)
	for i, nb := 0, r.Intn(8); i < nb; i++ {
		p := g.Pick(lab.SortedKeys(baseModel))
		v := lab.GenValue(r, i)
		if _, err := m0.Insert(util.Path(p), &lab.Val{B: v}); err != nil {
			panic(err)
		}
		baseModel[p] = v
		c.Tracef("base ins %q=%q", p, v)
	}
	c.Tracef("wiring=%v persistentBase=%v", map[bool]string{false: "fresh-cache-per-trie", true: "block/txn caches"}[realistic], persistentBase)

	var sc *statecache.StateCache
	var bc *statecache.BlockCache
	newCache := func() *statecache.TransactionCache {
		if realistic {
			return statecache.NewTransactionCache(bc)
		}
		return statecache.NewEmpty()
	}
	if realistic {
		sc = statecache.NewStateCache()
		bc = statecache.NewBlockCache(sc, statecache.Block{Round: 2, Hash: "blk2", PrevHash: "blk1"})
	}
	P := &c03trie{name: "P", model: lab.CopyContent(baseModel)}
	P.tc = newCache()
	P.t = util.NewMerklePatriciaTrie(util.NewLevelNodeDB(util.NewMemoryNodeDB(), base, false), 2, m0.GetRoot(), P.tc)
	all := []*c03trie{P}
	open := func(parent *c03trie) *c03trie {
		ch := &c03trie{name: fmt.Sprintf("%s.%d", parent.name, len(parent.children)+1), parent: parent, model: lab.CopyContent(parent.model)}
		ch.tc = newCache()
		ch.openRoot = append([]byte(nil), parent.t.GetRoot()...)
		ch.t = util.NewMerklePatriciaTrie(util.NewLevelNodeDB(util.NewMemoryNodeDB(), parent.t.GetNodeDB(), false), 2, parent.t.GetRoot(), ch.tc)
		parent.children = append(parent.children, ch)
		all = append(all, ch)
		c.Tracef("open %s", ch.name)
		return ch
	}
	live := func() []*c03trie {
		var o []*c03trie
		for _, t := range all {
			if !t.closed {
				o = append(o, t)
			}
		}
		return o
	}
	usable := func() []*c03trie { // open, not stale, not P
		var o []*c03trie
		for _, t := range all {
			if !t.closed && !t.stale && t.parent != nil && !t.parent.closed {
				o = append(o, t)
			}
		}
		return o
	}
	markStale := func(parent *c03trie, except *c03trie) {
		var rec func(t *c03trie)
		rec = func(t *c03trie) {
			for _, ch := range t.children {
				if ch != except && !ch.closed {
					ch.stale = true
					rec(ch)
				}
			}
		}
		rec(parent)
	}
	fail := func(format string, a ...any) {
		c.Violate("", "%s\ntrace: %s", fmt.Sprintf(format, a...), strings.Join(c.Trace(), "; "))
	}
	snapshotOthers := func(except ...*c03trie) map[*c03trie]string {
		s := map[*c03trie]string{}
	outer:
		for _, t := range live() {
			for _, e := range except {
				if t == e {
					continue outer
				}
			}
			if t.stale {
				continue
			}
			s[t] = c03observe(t)
		}
		return s
	}
	compareOthers := func(before map[*c03trie]string, what string) bool {
		for t, b := range before {
			if t.closed {
				continue
			}
			if a := c03observe(t); a != b {
				fail("%s changed the observation tuple of %s\n--- before ---\n%s\n--- after ---\n%s", what, t.name, clip(b, 1500), clip(a, 1500))
				return false
			}
			c.Count("tuple_comparisons", 1)
		}
		return true
	}

	valueHistory := map[string][][]byte{}
	for k, v := range baseModel {
		valueHistory[k] = append(valueHistory[k], v)
	}
	nsteps := 6 + r.Intn(18)
	if !c.Quick() {
		nsteps = 6 + r.Intn(40)
	}
	merges, discards, stales, grand := 0, 0, 0, 0
	for step := 0; step < nsteps; step++ {
		us := usable()
		act := r.Intn(100)
		switch {
		case act < 14 || len(us) == 0: // open a child of P or of an open child
			parents := []*c03trie{P}
			for _, t := range us {
				if strings.Count(t.name, ".") < 2 {
					parents = append(parents, t)
				}
			}
			par := parents[r.Intn(len(parents))]
			if len(live()) > 6 {
				par = P
				if len(live()) > 8 {
					continue
				}
			}
			if par != P {
				grand++
			}
			open(par)
		case act < 70: // operation inside a child
			t := us[r.Intn(len(us))]
			before := snapshotOthers(t)
			nops := 1 + r.Intn(3)
			if len(t.model) > 0 && len(t.model) <= 4 && r.Intn(25) == 0 {
				// the child deletes every path it sees: its view is the empty trie (merged later, the parent is empty too and
				// must still take inserts)
				for _, p := range lab.SortedKeys(t.model) {
					c.Tracef("%s del %q", t.name, p)
					if _, err := t.t.Delete(c03path.P(p)); err != nil {
						fail("%s: Delete(%q) of a path visible to the child failed: %v", t.name, p, err)
						return
					}
					delete(t.model, p)
				}
				t.hasWrites = true
				nops = 1
				c.Count("children_that_emptied_their_view", 1)
			}
			for k := 0; k < nops; k++ {
				p := g.Pick(lab.SortedKeys(t.model))
				if r.Intn(3) == 0 {
					_, present := t.model[p]
					c.Tracef("%s del %q", t.name, p)
					own := ""
					if !present {
						own = c03observe(t)
					}
					_, err := t.t.Delete(c03path.P(p))
					if present && err != nil {
						fail("%s: Delete(%q) of a path visible to the child failed: %v", t.name, p, err)
						return
					}
					if !present {
						// deleting an absent path changes nothing: root, content, pending changes and pending deletes stay as they were
						if err == nil {
							fail("%s: Delete(%q) of a path that is not visible to the child reported success", t.name, p)
							return
						}
						if a := c03observe(t); a != own {
							fail("%s: Delete(%q) of an absent path changed the trie's own observation tuple\n--- before ---\n%s\n--- after ---\n%s", t.name, p, clip(own, 1200), clip(a, 1200))
							return
						}
						c.Count("absent_deletes_leave_own_tuple_unchanged", 1)
					}
					if present {
						delete(t.model, p)
						t.hasWrites = true
					}
				} else {
					v := lab.GenValue(r, step)
					if h := valueHistory[p]; len(h) > 0 && r.Intn(4) == 0 {
						v = h[r.Intn(len(h))] // a value this path held earlier in the block (identical nodes re-appear)
						c.Count("earlier_values_reinserted", 1)
					}
					valueHistory[p] = append(valueHistory[p], v)
					c.Tracef("%s ins %q=%q", t.name, p, v)
					if _, err := t.t.Insert(c03path.P(p), &lab.Val{B: v}); err != nil {
						fail("%s: Insert(%q) failed: %v", t.name, p, err)
						return
					}
					t.model[p] = v
					t.hasWrites = true
				}
				c.Count("child_ops", 1)
			}
			if f := lab.CheckMap(t.t, t.model, lab.AbsentProbes(g, t.model)); f != "" {
				fail("view of %s is not parent-at-open plus own writes: %s", t.name, f)
				return
			}
			if !compareOthers(before, "an operation inside "+t.name) {
				return
			}
			if f := c03integrity(c, t); f != "" {
				fail("%s: %s", t.name, f)
				return
			}
		case act < 74: // direct operation on P (children of P become stale if the root moves)
			before := snapshotOthers(P)
			p := g.Pick(lab.SortedKeys(P.model))
			v := lab.GenValue(r, step)
			c.Tracef("P ins %q=%q", p, v)
			rootBefore := append([]byte(nil), P.t.GetRoot()...)
			if _, err := P.t.Insert(c03path.P(p), &lab.Val{B: v}); err != nil {
				fail("P: Insert failed: %v", err)
				return
			}
			P.model[p] = v
			if !bytes.Equal(rootBefore, P.t.GetRoot()) {
				for tt := range before {
					if tt != P {
						delete(before, tt) // descendants of P are stale now; their views are no longer compared
					}
				}
				markStale(P, nil)
			}
			if !compareOthers(before, "a direct operation on P") {
				return
			}
		case act < 88: // merge
			var cands []*c03trie
			for _, t := range live() {
				if t.parent != nil && !t.parent.closed {
					cands = append(cands, t)
				}
			}
			if len(cands) == 0 {
				continue
			}
			t := cands[r.Intn(len(cands))]
			par := t.parent
			// open descendants of t are abandoned by merging t
			parBefore := c03observe(par)
			before := snapshotOthers(t, par)
			for tt := range before {
				if tt.parent == par || isDescendant(tt, par) {
					delete(before, tt) // siblings/descendants of the merge target may legitimately become stale
				}
			}
			childRoot := append([]byte(nil), t.t.GetRoot()...)
			parRoot := append([]byte(nil), par.t.GetRoot()...)
			isStale := !bytes.Equal(parRoot, t.openRoot)
			c.Tracef("merge %s into %s (stale=%v)", t.name, par.name, isStale)
			var err error
			if r.Intn(4) == 0 { // the remote-merge entry point: the child's change set handed over explicitly
				newRoot, changes, deletes, startRoot := t.t.GetChanges()
				if bytes.Equal(newRoot, par.t.GetRoot()) {
					err = nil // nothing to merge (MergeMPTChanges treats equal roots the same way)
				} else {
					err = par.t.MergeChanges(newRoot, changes, deletes, startRoot)
				}
				c.Count("merges_via_MergeChanges", 1)
			} else {
				err = par.t.MergeMPTChanges(t.t)
			}
			t.closed = true
			closeDesc(t)
			switch {
			case isStale && !bytes.Equal(childRoot, parRoot):
				stales++
				c.Count("stale_merges", 1)
				if err == nil {
					fail("merge of %s, opened at root %x, into %s whose root has moved on to %x was accepted (must be rejected)", t.name, t.openRoot, par.name, parRoot)
					return
				}
				if a := c03observe(par); a != parBefore {
					fail("rejected merge of stale %s changed %s\n--- before ---\n%s\n--- after ---\n%s", t.name, par.name, clip(parBefore, 1500), clip(a, 1500))
					return
				}
			default:
				if err != nil {
					fail("merge of %s into %s failed: %v", t.name, par.name, err)
					return
				}
				merges++
				c.Count("merges", 1)
				if t.tc != nil && realistic {
					t.tc.Commit()
				}
				if !bytes.Equal(par.t.GetRoot(), childRoot) {
					fail("after merging %s the root of %s is %x, the child's root was %x", t.name, par.name, par.t.GetRoot(), childRoot)
					return
				}
				par.model = lab.CopyContent(t.model)
				// a stale target (its own parent moved on) may have lost lower-level nodes: its view is not judged any more
				if f := lab.CheckMap(par.t, par.model, lab.AbsentProbes(g, par.model)); f != "" && !par.stale {
					fail("after merging %s, %s does not read the child's view: %s", t.name, par.name, f)
					return
				}
				if !bytes.Equal(parRoot, childRoot) {
					markStale(par, t)
				}
				if f := c03integrity(c, par); f != "" {
					fail("%s after merge of %s: %s", par.name, t.name, f)
					return
				}
			}
			if !compareOthers(before, "merging "+t.name+" into "+par.name) {
				return
			}
		default: // discard
			var cands []*c03trie
			for _, t := range live() {
				if t.parent != nil {
					cands = append(cands, t)
				}
			}
			if len(cands) == 0 {
				continue
			}
			t := cands[r.Intn(len(cands))]
			before := snapshotOthers(t)
			for tt := range before {
				if isDescendant(tt, t) {
					delete(before, tt)
				}
			}
			c.Tracef("discard %s", t.name)
			t.closed = true
			closeDesc(t)
			discards++
			c.Count("discards", 1)
			if !compareOthers(before, "discarding "+t.name) {
				return
			}
		}
	}
	if f := lab.CheckMap(P.t, P.model, nil); f != "" {
		fail("block state at the end: %s", f)
		return
	}
	if f := c03integrity(c, P); f != "" {
		fail("P at the end: %s", f)
		return
	}
	// what the block has pending must be the complete difference to the base: save it into (a copy of) the base store
	// and read the block's content from that store alone
	if !persistentBase {
		target := util.NewMemoryNodeDB()
		_ = base.Iterate(context.Background(), func(ctx context.Context, key util.Key, node util.Node) error {
			return target.PutNode(key, node)
		})
		if err := P.t.SaveChanges(context.Background(), target, false); err != nil {
			fail("SaveChanges of the block failed: %v", err)
			return
		}
		F := lab.NewMPT(target, 2, P.t.GetRoot())
		if has, _ := F.HasMissingNodes(context.Background()); has {
			fail("the block's pending changes are incomplete: after saving them on top of the base state a fresh trie at the block's root has missing nodes")
			return
		}
		if f := lab.CheckMap(F, P.model, nil); f != "" {
			fail("after saving the block's pending changes on top of the base state: %s", f)
			return
		}
		c.Count("blocks_saved_and_reread", 1)
	}
	c.Count("blocks", 1)
	if grand > 0 {
		c.Count("blocks_with_grandchildren", 1)
	}
	if merges > 0 && (discards > 0 || stales > 0) {
		c.NonTrivial(fw.Hash64(strings.Join(c.Trace(), ";")))
	}
	if c.Idx < 4 {
		tr := c.Trace()
		if len(tr) > 50 {
			tr = tr[:50]
		}
		c.Sample(map[string]any{"block_history": tr})
	}
}

func isDescendant(t, anc *c03trie) bool {
	for p := t.parent; p != nil; p = p.parent {
		if p == anc {
			return true
		}
	}
	return false
}

func closeDesc(t *c03trie) {
	for _, ch := range t.children {
		ch.closed = true
		closeDesc(ch)
	}
}

func clip(s string, n int) string {
	if len(s) > n {
		return s[:n] + "…"
	}
	return s
}

func init() {
	fw.Register(&fw.Prop{
		ID:    "C03",
		Level: "exploration",
		Rule: "each case is one block history: a base state (memory or persistent store), a block trie P layered over it, and 6..24 (quick) / 6..46 (thorough) steps drawn from {open a child of P or a grandchild, 1-3 insert/delete operations inside an open child, " +
			"a direct write on P, merge a child into its parent (fresh or stale; MergeMPTChanges, or for a quarter MergeChanges with the child's GetChanges()), discard a child}; several children are open at the same time. Two wirings alternate: a fresh cache per trie, and one block cache shared by per-trie transaction caches committed on merge. " +
			"Monitors: child view == parent-at-open ⊕ own writes (map model, after every child operation); the observation tuple (root, Iterate content, pending changes hash->encoding/old hash, pending deletes, start root) of every other open trie is byte-identical " +
			"before/after child operations, discards and rejected merges; a stale merge must be rejected; after a successful merge parent root/content == child's; pending changes are keyed by the hash of their encoding and equal the stored node; a delete of a path the child does not see must fail and leave the child's own tuple (root, content, pending changes and deletes) identical; after every child operation and merge, for tries none of whose ancestors has moved on: every node reachable from the current root (walked in the store, not through the cache) is available below the trie's own level or is one of its pending new nodes, and no node recorded as deleted is reachable; at the end of half of the blocks the pending changes are saved on top of a copy of the base state and a fresh trie must read the block's content from that store alone. " +
			"non-trivial = block with at least one successful merge and at least one discard or stale merge; distinct by trace hash",
		Cases: func(tier string) int {
			if tier == "thorough" {
				return 500000
			}
			return 40000
		},
		Run:    runC03,
		Floors: map[string]int64{"collector_vs_reachability_checks": 100000, "absent_deletes_leave_own_tuple_unchanged": 20000, "children_that_emptied_their_view": 800, "blocks": 20000, "merges": 20000, "discards": 10000, "stale_merges": 2000, "tuple_comparisons": 100000, "child_ops": 100000, "blocks_with_grandchildren": 2000, "merges_via_MergeChanges": 5000, "blocks_saved_and_reread": 15000, "earlier_values_reinserted": 20000},
		Assumptions: []string{
			"after a parent's root moves (successful merge of a sibling or direct write), the remaining children are stale: only the rejection of their merge and the parent's unchangedness are checked, not their views",
			"a stale child whose merge would change the parent must be rejected with an error (accepting it silently drops a published sibling)",
		},
	})
}
