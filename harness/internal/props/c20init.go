package props

import (
	"fmt"
	"net/http/httptest"
	"os"
	"regexp"
	"strconv"

	"github.com/0chain/common/core/logging"
	"go.uber.org/zap"
	"go.uber.org/zap/zapcore"

	"verif/harness/internal/fw"
)

// C20, buffers as the package wires them: InitLogging builds four loggers, each a tee of a file core and an in-memory
// buffer with a level of its own, and the HTTP handlers of handler.go print the buffers. The history writes through the
// package's loggers (and loggers derived from them) and reads the pages: each page must show, newest first, exactly the
// most recent entries its buffer's level admits - also for runs of entries with one and the same message and level
// (nothing between the logger and the buffer may thin them out), and after the package was initialised a second time
// (the page follows the buffers that are current).

var c20seqRe = regexp.MustCompile(`"seq": ?(\d+)`)

func c20page(h func(w *httptest.ResponseRecorder)) []int {
	w := httptest.NewRecorder()
	h(w)
	var out []int
	for _, m := range c20seqRe.FindAllStringSubmatch(w.Body.String(), -1) {
		n, _ := strconv.Atoi(m[1])
		out = append(out, n)
	}
	return out
}

func c20initLogging(c *fw.Ctx) {
	r := c.Rng
	capacity := logging.BufferSize
	prev, prevN2n, prevMem, prevHC := logging.Logger, logging.N2n, logging.MemUsage, logging.HCLogger
	defer func() { logging.Logger, logging.N2n, logging.MemUsage, logging.HCLogger = prev, prevN2n, prevMem, prevHC }()
	dir, err := os.MkdirTemp("", "verif-c20-init")
	if err != nil {
		panic(err)
	}
	defer os.RemoveAll(dir)
	mode := []string{"development", "production"}[c.Idx/250%2]
	minMain := zapcore.DebugLevel
	if mode != "development" {
		minMain = zapcore.ErrorLevel
	}
	seq := 0
	for round := 0; round < 2; round++ {
		logging.InitLogging(mode, dir)
		// expected content of the three pages since this initialisation, oldest first
		var wantMain, wantN2n, wantMem []int
		root := logging.Logger
		loggers := []*zap.Logger{root, root.With(zap.String("who", "derived")), root.With(zap.Int("a", 1)).With(zap.Int("b", 2))}
		total := []int{3, capacity - 1, capacity + 5, 2*capacity + 3}[r.Intn(4)]
		sameMsg := r.Intn(2) == 0 // the whole run carries one message and one level: hundreds of identical entries per second
		lvls := []zapcore.Level{zapcore.DebugLevel, zapcore.InfoLevel, zapcore.WarnLevel, zapcore.ErrorLevel}
		for i := 0; i < total; i++ {
			seq++
			l := loggers[r.Intn(len(loggers))]
			lvl := lvls[r.Intn(len(lvls))]
			msg := fmt.Sprintf("entry-%d", seq)
			if sameMsg {
				lvl, msg = zapcore.ErrorLevel, "the same message"
			}
			if ce := l.Check(lvl, msg); ce != nil {
				ce.Write(zap.Int("seq", seq))
			}
			if lvl >= minMain {
				wantMain = append(wantMain, seq)
			}
			if i%7 == 3 { // the other loggers of the package have buffers and levels of their own
				seq++
				nl := []zapcore.Level{zapcore.DebugLevel, zapcore.InfoLevel, zapcore.ErrorLevel}[r.Intn(3)]
				if ce := logging.N2n.Check(nl, "n2n"); ce != nil {
					ce.Write(zap.Int("seq", seq))
				}
				if nl >= zapcore.InfoLevel {
					wantN2n = append(wantN2n, seq)
				}
				seq++
				if ce := logging.MemUsage.Check(nl, "mem"); ce != nil {
					ce.Write(zap.Int("seq", seq))
				}
				if nl >= zapcore.InfoLevel {
					wantMem = append(wantMem, seq)
				}
			}
		}
		c.Count("entries_written", int64(total))
		pages := []struct {
			name string
			got  []int
			want []int
		}{
			{"LogWriter", c20page(func(w *httptest.ResponseRecorder) { logging.LogWriter(w, httptest.NewRequest("GET", "/?detail=2", nil)) }), wantMain},
			{"N2NLogWriter", c20page(func(w *httptest.ResponseRecorder) { logging.N2NLogWriter(w, httptest.NewRequest("GET", "/?detail=2", nil)) }), wantN2n},
			{"MemLogWriter", c20page(func(w *httptest.ResponseRecorder) { logging.MemLogWriter(w, httptest.NewRequest("GET", "/?detail=3", nil)) }), wantMem},
		}
		for _, p := range pages {
			want := p.want
			if len(want) > capacity {
				want = want[len(want)-capacity:]
			}
			when := fmt.Sprintf("InitLogging(%q) #%d, %d writes through Logger (one message and level for all: %v)", mode, round+1, total, sameMsg)
			if len(p.got) != len(want) {
				c.Violate("", "%s shows %d entries, the buffer's level admitted %d and the most recent %d are expected (%s)", p.name, len(p.got), len(p.want), len(want), when)
				return
			}
			for i := range p.got {
				if p.got[i] != want[len(want)-1-i] {
					c.Violate("", "%s entry %d is seq %d, expected %d (newest first; %s)", p.name, i, p.got[i], want[len(want)-1-i], when)
					return
				}
			}
			c.Count("handler_pages_compared", 1)
		}
	}
	c.Count("histories_through_InitLogging_and_the_handlers", 1)
	c.NonTrivial(fw.Hash64("init", c.Idx))
}
