package props

import (
	"fmt"
	"strings"

	"github.com/0chain/common/core/statecache"

	"verif/harness/internal/fw"
)

// C06 — the state cache never returns a wrong value for a block.
// C07 — writes are private until commit; values are never shared (mutable values, scribbled after set and get).

// runCacheHistory drives a random block tree through the cache; mutable selects the C07 discipline.
func runCacheHistory(c *fw.Ctx, mutable bool, nsteps, maxDepth int) {
	r := c.Rng
	w := newWorld(r, 3+r.Intn(6), mutable)
	nb := 0
	mkHash := func() string { nb++; return fmt.Sprintf("b%d", nb) }
	genesis := w.newBlock(c, mkHash(), "")
	_ = genesis
	fail := func() bool { return c.Violated() }
	key := func() string { return w.keyNames[r.Intn(len(w.keyNames))] }
	outOfOrder := r.Intn(4) == 0 // allow committing a child before its parent
	forks, gaps, removals, abandoned := 0, 0, 0, 0
	for step := 0; step < nsteps && !fail(); step++ {
		open := w.openBlocks()
		txs := w.liveTxns()
		act := r.Intn(100)
		switch {
		case act < 12 || len(open) == 0: // new block
			var prev string
			switch k := r.Intn(20); {
			case k == 0:
				prev = fmt.Sprintf("gap%d", step) // parent never seen by the cache
				gaps++
			case k < 5 && len(w.order) > 1: // fork: child of a random earlier block
				prev = w.order[r.Intn(len(w.order))].hash
				forks++
			default: // extend a tip (deepest blocks)
				best := w.order[len(w.order)-1]
				for i := 0; i < 3; i++ {
					cand := w.order[r.Intn(len(w.order))]
					if cand.depth > best.depth {
						best = cand
					}
				}
				prev = best.hash
			}
			if len(open) >= 4 {
				continue
			}
			if p := w.blocks[prev]; p != nil && p.depth >= maxDepth {
				continue
			}
			w.newBlock(c, mkHash(), prev)
		case act < 20: // new transaction in an open block
			if len(txs) < 6 {
				w.newTxn(c, open[r.Intn(len(open))])
			}
		case act < 42 && len(txs) > 0:
			w.txnSet(c, txs[r.Intn(len(txs))], key())
		case act < 50 && len(txs) > 0:
			w.txnRemove(c, txs[r.Intn(len(txs))], key())
			removals++
		case act < 58 && len(txs) > 0:
			t := txs[r.Intn(len(txs))]
			if r.Intn(5) == 0 {
				t.done = true // abandoned transaction: never committed
				abandoned++
				c.Tracef("%s abandoned", t.name)
			} else {
				w.txnCommit(c, t)
				t.done = true
			}
		case act < 61:
			w.blockSet(c, open[r.Intn(len(open))], key())
		case act < 72: // commit a block
			var cands []*cblock
			for _, b := range open {
				p := w.blocks[b.prev]
				if outOfOrder || p == nil || p.committed {
					cands = append(cands, b)
				}
			}
			if len(cands) == 0 {
				continue
			}
			b := cands[r.Intn(len(cands))]
			// pending transactions of that block commit first (program order of real usage) or are abandoned
			for _, t := range w.liveTxns() {
				if t.blk == b {
					if r.Intn(4) != 0 {
						w.txnCommit(c, t)
					} else {
						abandoned++
					}
					t.done = true
				}
			}
			if r.Intn(12) == 0 && len(w.order) > 2 {
				// abandoned block: the cache never hears of it again; lookups at it (and through it) must miss
				c.Tracef("%s abandoned (never committed)", b.hash)
				delete(w.blocks, b.hash)
				for i, ob := range w.order {
					if ob == b {
						w.order = append(w.order[:i], w.order[i+1:]...)
						break
					}
				}
				abandoned++
				continue
			}
			w.blockCommit(c, b)
			if r.Intn(15) == 0 {
				w.recommit(c, b)
			}
		default: // lookups
			if r.Intn(25) == 0 {
				// caches made with NewEmpty belong to nobody: what one of them commits, another one must not see
				ea, eb := statecache.NewEmpty(), statecache.NewEmpty()
				ek := fmt.Sprintf("empty-%d", step)
				ea.Set(ek, statecache.String("from-a"))
				ea.Commit()
				if v, ok := eb.Get(ek); ok {
					c.Violate("", "a cache made with NewEmpty() returns %v for a key that only another NewEmpty() cache wrote and committed", v)
					return
				}
				if v, ok := statecache.NewEmpty().Get(ek); ok {
					c.Violate("", "a fresh NewEmpty() cache returns %v for a key written through an earlier NewEmpty() cache", v)
					return
				}
				c.Count("independent_empty_caches_checked", 1)
			}
			switch k := r.Intn(12); {
			case k >= 10: // through the retained block / transaction cache objects of a committed block
				var cb []*cblock
				for _, b := range w.order {
					if b.committed && b.bc != nil {
						cb = append(cb, b)
					}
				}
				if len(cb) == 0 {
					continue
				}
				b := cb[r.Intn(len(cb))]
				var ts []*ctxn
				for _, t := range w.txns {
					if t.blk == b {
						ts = append(ts, t)
					}
				}
				if r.Intn(6) == 0 {
					w.lateWrite(c, b, key(), r.Intn(2) == 0)
				} else if len(ts) > 0 && r.Intn(2) == 0 {
					w.getTxnCtx(c, key(), ts[r.Intn(len(ts))])
				} else {
					w.getBlockCtx(c, key(), b)
				}
			case k < 5:
				b := w.order[r.Intn(len(w.order))]
				if r.Intn(3) == 0 {
					b = w.order[len(w.order)-1]
				}
				w.getState(c, key(), b.hash, r.Intn(3) == 0)
			case k < 6:
				w.getState(c, key(), fmt.Sprintf("unknown%d", step), false)
			case k < 8 && len(open) > 0:
				w.getBlockCtx(c, key(), open[r.Intn(len(open))])
			case len(txs) > 0:
				w.getTxnCtx(c, key(), txs[r.Intn(len(txs))])
			default:
				b := w.order[r.Intn(len(w.order))]
				// the three-step shape: lookup at an old block, then at the tip
				k2 := key()
				w.getState(c, k2, b.hash, false)
				if !fail() {
					w.getState(c, k2, w.order[len(w.order)-1].hash, false)
				}
			}
		}
	}
	if !fail() {
		w.sweep(c)
	}
	if fail() {
		return
	}
	c.Count("trees", 1)
	c.Count("node_objects_reused_with_an_edited_payload", int64(w.reusedObjects))
	c.Count("forks", int64(forks))
	c.Count("gaps", int64(gaps))
	c.Count("removals", int64(removals))
	c.Count("abandoned", int64(abandoned))
	c.Count("blocks_committed", int64(w.commits))
	if outOfOrder {
		c.Count("trees_with_out_of_order_commits", 1)
	}
	maxd := 0
	for _, b := range w.order {
		if b.depth > maxd {
			maxd = b.depth
		}
	}
	c.Max("chain_depth", int64(maxd))
	if forks > 0 && w.commits >= 3 {
		c.NonTrivial(fw.Hash64(strings.Join(c.Trace(), ";")))
	}
	if c.Idx%1000 == 17 {
		tr := c.Trace()
		if len(tr) > 60 {
			tr = tr[:60]
		}
		c.Sample(map[string]any{"history": tr})
	}
}

// hotKeyChain: a long chain in which one key is written in every block while an old block is kept recent by lookups;
// with more than 200 versions the per-key version LRU drops intermediate writes (known finding D9).
func runHotKeyChain(c *fw.Ctx, length int) {
	r := c.Rng
	w := newWorld(r, 2, false)
	prev := ""
	var first string
	for i := 1; i <= length && !c.Violated(); i++ {
		h := fmt.Sprintf("h%d", i)
		if first == "" {
			first = h
		}
		b := w.newBlock(c, h, prev)
		t := w.newTxn(c, b)
		if i%3 != 0 || i < 10 {
			w.txnSet(c, t, "k0")
		}
		if i%50 == 0 {
			w.txnSet(c, t, "k1")
		}
		w.txnCommit(c, t)
		t.done = true
		w.blockCommit(c, b)
		prev = h
		// keep old versions recent, look at the tip and at a random old block
		w.getState(c, "k0", first, false)
		if !c.Violated() {
			w.getState(c, "k0", h, false)
		}
		if !c.Violated() && i > 5 {
			w.getState(c, "k0", fmt.Sprintf("h%d", 1+r.Intn(i)), false)
		}
		if !c.Violated() && i%7 == 0 {
			w.getState(c, "k1", h, false)
		}
	}
	if !c.Violated() {
		w.sweep(c)
	}
	c.Count("hot_key_chains", 1)
	c.Max("chain_depth", int64(length))
	c.Max("versions_of_one_key", int64(len(w.perKey["k0"])))
}

// quietChain: a writes k0, its child f writes k0 again, and a chain of `length` blocks on top of a (a sibling fork of f)
// never touches k0. One lookup of k0 at the chain's tip walks the whole chain back to a; lookups at f, at a and along the
// chain must then still be what the tree determines. The key has only a handful of versions: nothing may be evicted.
func runQuietChain(c *fw.Ctx, length int) {
	w := newWorld(c.Rng, 3, false)
	commit := func(h, prev string, set ...string) {
		b := w.newBlock(c, h, prev)
		t := w.newTxn(c, b)
		for _, k := range set {
			w.txnSet(c, t, k)
		}
		w.txnCommit(c, t)
		t.done = true
		w.blockCommit(c, b)
	}
	commit("a", "", "k0", "k1")
	commit("f", "a", "k0")
	prev := "a"
	for i := 1; i <= length; i++ {
		h := fmt.Sprintf("q%d", i)
		if i%10 == 0 {
			commit(h, prev, "k2")
		} else {
			commit(h, prev)
		}
		prev = h
	}
	for _, at := range []string{prev, "f", "a", fmt.Sprintf("q%d", 1+length/2), "f", prev} {
		if c.Violated() {
			return
		}
		w.getState(c, "k0", at, false)
	}
	if !c.Violated() {
		w.getState(c, "k1", "f", false)
		w.sweep(c)
	}
	c.Count("quiet_chains", 1)
}

func runC06(c *fw.Ctx) {
	if c.Idx >= 4 && c.Idx < 12 { // long quiet chains next to a fork that re-writes the key
		n := []int{150, 198, 199, 200, 201, 230, 399, 400}[c.Idx-4]
		c.Describe(map[string]any{"scenario": "quiet chain", "length": n})
		runQuietChain(c, n)
		return
	}
	if c.Idx < 4 { // dedicated long-chain / hot-key scenarios
		n := 260
		if !c.Quick() {
			n = []int{260, 600, 2100, 2600}[c.Idx]
		}
		c.Describe(map[string]any{"scenario": "hot-key chain", "length": n})
		runHotKeyChain(c, n)
		return
	}
	steps := 60 + c.Rng.Intn(200)
	depth := 60
	if !c.Quick() && c.Idx%10 == 0 {
		steps = 1500
		depth = 400
	}
	runCacheHistory(c, false, steps, depth)
}

func runC07(c *fw.Ctx) {
	if c.Idx%160 == 33 {
		c07parallel(c)
		return
	}
	steps := 60 + c.Rng.Intn(160)
	runCacheHistory(c, true, steps, 40)
}

func init() {
	fw.Register(&fw.Prop{
		ID:    "C06",
		Level: "exploration",
		Rule: "each case grows a random block tree through the real cache objects: new blocks (extending a tip, forking from an old block, or on a parent the cache never saw = gap), transactions per block, set/remove in transactions and block caches, transaction commits, " +
			"abandoned transactions and blocks, block caches that get their hash only right before the commit (SetBlockHash), block commits (parent first; a quarter of the trees also out of order), a second commit of an already committed block hash with different writes (must be ignored), and lookups through StateCache.Get, QueryBlockCache, BlockCache.Get and TransactionCache.Get at tips, old blocks, siblings and unknown hashes, also through the retained block/transaction cache objects of blocks that have been committed (own committed writes first, own never-committed transaction writes before those; writes and removals made into such an object after the commit stay private to it and come first there, also after the object is committed a second time (which must change nothing); a block cache whose commit was refused as a duplicate keeps its own writes), " +
			"each compared with the harness' own block-tree model (unique token per write: a wrong hit names the block it leaked from); a final sweep reads every (key, block). Cases 4-11 are quiet chains (a writes the key, its child f writes it again, 150..400 blocks on top of a never touch it; one lookup at the tip, then at f, a and along the chain). Cases 0-3 are hot-key chains (one key written in most of 260..2600 blocks with an old block kept recent). " +
			"non-trivial = tree with at least one fork and three committed blocks; distinct by trace hash",
		Cases: func(tier string) int {
			if tier == "thorough" {
				return 1600000
			}
			return 96000
		},
		Run: runC06,
		Floors: map[string]int64{"quiet_chains": 8, "independent_empty_caches_checked": 20000, "lookups_through_caches_of_committed_blocks": 200000, "late_writes_into_committed_block_caches": 30000, "late_removals_into_committed_block_caches": 3000, "repeated_commits_of_a_committed_block_cache": 8000, "trees": 80000, "lookups": 5000000, "hits": 100000, "misses": 100000, "forks": 10000, "gaps": 1000, "removals": 10000, "trees_with_out_of_order_commits": 1000,
			"hot_key_chains": 4, "max:versions_of_one_key": 201, "duplicate_commits": 5000, "late_block_hashes": 20000},
		Assumptions: []string{
			"uncommitted blocks on a chain are skipped by the model (their writes are private), so the legal set is {miss, nearest committed write}",
			"a BlockCache / TransactionCache object is not used for lookups after its own block has committed (the block is then queried through StateCache/QueryBlockCache)",
			"wrong hits on a key for which the cache has been given more than 200 block entries are classified as the known finding per-key-version-overflow",
		},
	})
	fw.Register(&fw.Prop{
		ID:    "C07",
		Level: "exploration",
		Rule: "same block-tree generator as C06 but with mutable values (byte-slice value with deep Clone, and real trie nodes: leaf, branch, extension, value node). After every Set the harness overwrites the object it handed in, after every hit it overwrites the object it received; one Set in eight hands in a leaf object that was used before, with a new payload written into its value object in place (the expected content comes from an equivalent node built from scratch). " +
			"Oracle: the C06 model plus visibility: a transaction's writes/removals are visible only to itself until its commit, a block's only to its own caches until the block commits; own uncommitted entries must hit; after commit, lookups in descendant contexts whose chain is fully committed " +
			"must HIT with the logical content originally set (workloads stay an order of magnitude below every capacity: <100 versions per key, <1000 commits). non-trivial = tree with a fork and >=3 commits; distinct by trace hash",
		Cases: func(tier string) int {
			if tier == "thorough" {
				return 1200000
			}
			return 64000
		},
		Run:    runC07,
		Floors: map[string]int64{"parallel_runs_of_unrelated_caches": 300, "lookups_through_caches_of_committed_blocks": 100000, "independent_empty_caches_checked": 20000, "node_objects_reused_with_an_edited_payload": 50000, "late_writes_into_committed_block_caches": 20000, "late_removals_into_committed_block_caches": 2000, "repeated_commits_of_a_committed_block_cache": 5000, "trees": 50000, "lookups": 3000000, "hits": 100000, "misses": 50000, "removals": 5000, "abandoned": 5000, "must_hit_assertions": 500000},
		Assumptions: []string{
			"must-hit assertions only within capacity (see rule); elsewhere miss-or-right-value",
		},
	})
}
