package props

import (
	"bytes"
	"context"
	"errors"
	"fmt"
	"math/rand"
	"os"
	"runtime"
	"sort"
	"strings"
	"sync"
	"sync/atomic"
	"time"

	"github.com/0chain/common/core/util"
	"github.com/anishathalye/porcupine"

	"verif/harness/internal/fw"
	"verif/harness/internal/model"
	lab "verif/harness/internal/mptlab"
)

// C16 — concurrent use of one state trie is linearizable (w.r.t. the map semantics and the canonical root) and race-free.

type linIn struct {
	Op    string // ins del get iter root snap merge
	Key   string
	Val   string
	Start string // merge: root (hex) the merged child trie was opened at
	New   string // merge: root (hex) of the child trie after its insert
}
type linOut struct {
	Val string // value / canonical content / root hex
	Err string // "" | "notpresent" | other
}

const c16version = 7

func contentStr(m map[string]string) string {
	ks := make([]string, 0, len(m))
	for k := range m {
		ks = append(ks, k)
	}
	sort.Strings(ks)
	var sb strings.Builder
	for i, k := range ks {
		if i > 0 {
			sb.WriteByte(',')
		}
		fmt.Fprintf(&sb, "%s=%s", k, m[k])
	}
	return sb.String()
}

func parseContent(s string) map[string]string {
	m := map[string]string{}
	if s == "" {
		return m
	}
	for _, kv := range strings.Split(s, ",") {
		i := strings.Index(kv, "=")
		m[kv[:i]] = kv[i+1:]
	}
	return m
}

var rootMemo sync.Map // content string -> root hex

func refRootOf(s string) string {
	if v, ok := rootMemo.Load(s); ok {
		return v.(string)
	}
	m := parseContent(s)
	c := map[string][]byte{}
	for k, v := range m {
		c[k] = []byte(v)
	}
	r := fmt.Sprintf("%x", model.CanonRoot(c16version, c))
	rootMemo.Store(s, r)
	return r
}

var c16model = porcupine.Model{
	Init: func() interface{} { return "" },
	Step: func(st, in, out interface{}) (bool, interface{}) {
		s := st.(string)
		i := in.(linIn)
		o := out.(linOut)
		switch i.Op {
		case "ins":
			m := parseContent(s)
			m[i.Key] = i.Val
			return o.Err == "", contentStr(m)
		case "del":
			m := parseContent(s)
			if _, had := m[i.Key]; had {
				delete(m, i.Key)
				return o.Err == "", contentStr(m)
			}
			return o.Err == "notpresent", s
		case "get":
			m := parseContent(s)
			if v, had := m[i.Key]; had {
				return o.Err == "" && o.Val == v, s
			}
			return o.Err == "notpresent", s
		case "iter":
			return o.Err == "" && o.Val == s, s
		case "root":
			return o.Val == refRootOf(s), s
		case "merge": // a child trie opened at root Start, one insert, merged back: compare-and-set on the whole content
			if o.Err != "" { // rejected: the trie had moved on from Start (and is not already at the child's root)
				return refRootOf(s) != i.Start, s
			}
			if refRootOf(s) == i.Start {
				m := parseContent(s)
				m[i.Key] = i.Val
				return true, contentStr(m)
			}
			return refRootOf(s) == i.New, s // merging a child whose root equals the current root is a no-op success
		case "snap": // GetChanges: root and the content reachable through the returned changes belong to one state
			return o.Val == refRootOf(s) && o.Err == "content:"+s, s
		}
		return false, s
	},
	Equal: func(a, b interface{}) bool { return a.(string) == b.(string) },
	DescribeOperation: func(in, out interface{}) string {
		i, o := in.(linIn), out.(linOut)
		extra := ""
		if i.Op == "merge" {
			extra = fmt.Sprintf(" child opened at %.8s -> %.8s", i.Start, i.New)
		}
		return fmt.Sprintf("%s(%s%s%s) -> %q %s", i.Op, i.Key, map[bool]string{true: "=" + i.Val, false: ""}[i.Val != ""], extra, o.Val, o.Err)
	},
}

// jitterDB injects scheduling noise at the store boundary, i.e. inside the trie's critical sections.
type jitterDB struct {
	util.NodeDB
	x uint32
}

func (j *jitterDB) jitter() {
	v := atomic.AddUint32(&j.x, 2654435761)
	switch {
	case v%4 == 0:
		runtime.Gosched()
	case v%61 == 0:
		time.Sleep(time.Duration(v%20) * time.Microsecond)
	}
}
func (j *jitterDB) GetNode(k util.Key) (util.Node, error) { j.jitter(); return j.NodeDB.GetNode(k) }
func (j *jitterDB) PutNode(k util.Key, n util.Node) error { j.jitter(); return j.NodeDB.PutNode(k, n) }
func (j *jitterDB) DeleteNode(k util.Key) error           { j.jitter(); return j.NodeDB.DeleteNode(k) }

// contentFromChanges walks from root through the New nodes of a change set and returns "content:<canonical content>",
// or a description of the first node that is not in the set.
func contentFromChanges(root util.Key, changes []*util.NodeChange) string {
	byHash := map[string]util.Node{}
	for _, ch := range changes {
		byHash[string(ch.New.GetHashBytes())] = ch.New
	}
	out := map[string]string{}
	var walk func(key []byte, path string) string
	walk = func(key []byte, path string) string {
		n, ok := byHash[string(key)]
		if !ok {
			return fmt.Sprintf("torn snapshot: node %x at path %q reachable from the returned root is not among the returned changes", key[:4], path)
		}
		switch t := n.(type) {
		case *util.LeafNode:
			out[path+string(t.Path)] = string(t.GetValueBytes())
		case *util.FullNode:
			if t.HasValue() {
				out[path] = string(t.GetValueBytes())
			}
			for i, ch := range t.Children {
				if ch != nil {
					if e := walk(ch, path+string("0123456789abcdef"[i])); e != "" {
						return e
					}
				}
			}
		case *util.ExtensionNode:
			return walk(t.NodeKey, path+string(t.Path))
		}
		return ""
	}
	if len(root) == 0 {
		return "content:"
	}
	if e := walk(root, ""); e != "" {
		return e
	}
	return "content:" + contentStr(out)
}

func errClass(err error) string {
	switch {
	case err == nil:
		return ""
	case errors.Is(err, util.ErrValueNotPresent):
		return "notpresent"
	default:
		return err.Error()
	}
}

func c16history(c *fw.Ctx) {
	r := c.Rng
	procs := []int{1, 2, 4, 16}[r.Intn(4)]
	old := runtime.GOMAXPROCS(procs)
	defer runtime.GOMAXPROCS(old)
	pathSets := [][]string{{"", "00", "0011", "0012", "01"}, {"0a", "0a0b", "0a0b0c", "0a0c"}, {"1000", "1001", "1100", ""}, {"ab", "abcd", "abce", "ac", "abcdef"}, {"00", "01", "02"}}
	paths := pathSets[r.Intn(len(pathSets))]
	G := 3 + r.Intn(4)
	nops := 4 + r.Intn(5)
	if !c.Quick() {
		nops = 4 + r.Intn(8)
	}
	if os.Getenv("VERIF_C16_SEQ") == "1" { // debugging aid: one goroutine, long script
		G = 1
		nops = 40
	}
	var side util.NodeDB = util.NewMemoryNodeDB()
	mdb := &jitterDB{NodeDB: util.NewMemoryNodeDB()}
	m := lab.NewMPT(mdb, c16version, nil)
	// variants: "reopened" = the trie object is opened at the root of earlier content (updates then also produce deletes;
	// saves go to a layered store with includeDeletes=true); "merges" = goroutines also merge child tries back
	reopened := r.Intn(4) == 0
	withMerges := !reopened && r.Intn(3) == 0
	if reopened {
		side = util.NewLevelNodeDB(util.NewMemoryNodeDB(), util.NewMemoryNodeDB(), false)
	}
	scripts := make([][]linIn, G)
	ctr := 0
	for g := 0; g < G; g++ {
		for i := 0; i < nops; i++ {
			k := paths[r.Intn(len(paths))]
			switch r.Intn(12) {
			case 0, 1, 2, 3:
				ctr++
				scripts[g] = append(scripts[g], linIn{Op: "ins", Key: k, Val: fmt.Sprintf("v%d", ctr)})
			case 4, 5:
				scripts[g] = append(scripts[g], linIn{Op: "del", Key: k})
			case 6, 7:
				scripts[g] = append(scripts[g], linIn{Op: "get", Key: k})
			case 8:
				scripts[g] = append(scripts[g], linIn{Op: "iter"})
			case 9:
				scripts[g] = append(scripts[g], linIn{Op: "root"})
			case 10:
				if withMerges {
					ctr++
					scripts[g] = append(scripts[g], linIn{Op: []string{"mergeC", "mergeM"}[r.Intn(2)], Key: k, Val: fmt.Sprintf("v%d", ctr)})
				} else {
					scripts[g] = append(scripts[g], linIn{Op: "rootc"}) // GetChanges snapshot
				}
			default:
				scripts[g] = append(scripts[g], linIn{Op: "save", Val: strings.Repeat("x", r.Intn(3))}) // SaveChanges (plain / cancelled / expiring ctx) to a side store + GetChangeCount
			}
		}
	}
	// half of the histories start from a non-empty trie whose node cache has been committed to the block cache below
	// (entries then live only in the lower cache layer, the way a long-lived trie is used)
	preload := map[string]string{}
	if reopened || r.Intn(2) == 0 {
		for i := 0; i < 1+r.Intn(4); i++ {
			k := paths[r.Intn(len(paths))]
			ctr++
			v := fmt.Sprintf("v%d", ctr)
			if _, err := m.Insert(util.Path(k), &lab.Val{B: []byte(v)}); err == nil {
				preload[k] = v
			}
		}
		m.Cache().Commit()
		c.Count("histories_with_committed_node_cache", 1)
		if reopened {
			m = lab.NewMPT(mdb, c16version, m.GetRoot())
			c.Count("histories_on_a_reopened_trie", 1)
		}
	}
	if withMerges {
		c.Count("histories_with_merges", 1)
	}
	var mu sync.Mutex
	var ops []porcupine.Operation
	for k, v := range preload { // the preload enters the history as completed sequential inserts
		ops = append(ops, porcupine.Operation{ClientId: G + 1, Input: linIn{Op: "ins", Key: k, Val: v}, Call: int64(-1000 + len(ops)*2), Output: linOut{}, Return: int64(-999 + len(ops)*2)})
	}
	start := time.Now()
	gate := make(chan struct{})
	var wg sync.WaitGroup
	for g := 0; g < G; g++ {
		wg.Add(1)
		go func(g int) {
			defer wg.Done()
			<-gate
			for _, op := range scripts[g] {
				call := int64(time.Since(start))
				var o linOut
				rec := true
				in := op
				switch op.Op {
				case "ins":
					_, err := m.Insert(util.Path(op.Key), &lab.Val{B: []byte(op.Val)})
					o.Err = errClass(err)
				case "del":
					_, err := m.Delete(util.Path(op.Key))
					o.Err = errClass(err)
				case "get":
					d, err := m.GetNodeValueRaw(util.Path(op.Key))
					o.Err = errClass(err)
					o.Val = string(d)
				case "iter":
					got, err := lab.IterAll(m)
					o.Err = errClass(err)
					sm := map[string]string{}
					for k, v := range got {
						sm[k] = string(v)
					}
					o.Val = contentStr(sm)
				case "root":
					o.Val = fmt.Sprintf("%x", []byte(m.GetRoot()))
				case "mergeC", "mergeM":
					startRoot := append([]byte(nil), m.GetRoot()...)
					child := lab.NewMPT(util.NewLevelNodeDB(util.NewMemoryNodeDB(), m.GetNodeDB(), false), c16version, startRoot)
					if _, cerr := child.Insert(util.Path(op.Key), &lab.Val{B: []byte(op.Val)}); cerr != nil {
						rec = false // the parent moved on under the child (a node it reads was replaced): nothing to merge
						break
					}
					in.Start, in.New = fmt.Sprintf("%x", startRoot), fmt.Sprintf("%x", []byte(child.GetRoot()))
					call = int64(time.Since(start))
					var merr error
					if op.Op == "mergeC" {
						newRoot, changes, deletes, sr := child.GetChanges()
						merr = m.MergeChanges(newRoot, changes, deletes, sr)
					} else {
						merr = m.MergeMPTChanges(child)
					}
					if merr != nil {
						o.Err = "rejected"
						c.Count("merges_rejected", 1)
					} else {
						c.Count("merges_accepted", 1)
					}
					in.Op = "merge"
				case "rootc":
					if reopened { // nodes from before the re-open are not pending changes: only the root is judged
						root, _, _, _ := m.GetChanges()
						o.Val = fmt.Sprintf("%x", []byte(root))
						in.Op = "root"
						break
					}
					// GetChanges must be an atomic snapshot: the trie started empty, so every node reachable from the
					// returned root must be among the returned changes, and the content read from them is the state
					root, changes, _, _ := m.GetChanges()
					o.Val = fmt.Sprintf("%x", []byte(root))
					o.Err = contentFromChanges(root, changes)
					in.Op = "snap"
				case "save":
					_ = m.GetChangeCount()
					switch len(op.Val) % 3 {
					case 0:
						_ = m.SaveChanges(context.Background(), side, reopened)
					case 1: // already cancelled: SaveChanges returns at once, the saver goroutine keeps running concurrently with writers
						cctx, cancel := context.WithCancel(context.Background())
						cancel()
						_ = m.SaveChanges(cctx, side, reopened)
					default:
						cctx, cancel := context.WithTimeout(context.Background(), 20*time.Microsecond)
						_ = m.SaveChanges(cctx, side, reopened)
						cancel()
					}
					rec = false
				}
				ret := int64(time.Since(start))
				if rec {
					mu.Lock()
					ops = append(ops, porcupine.Operation{ClientId: g, Input: in, Call: call, Output: o, Return: ret})
					mu.Unlock()
				}
			}
		}(g)
	}
	close(gate)
	wg.Wait()
	// final sequential read of content and root: "final content and root equal a sequential execution of the completed updates"
	t1 := int64(time.Since(start)) + 1
	got, err := lab.IterAll(m)
	sm := map[string]string{}
	for k, v := range got {
		sm[k] = string(v)
	}
	ops = append(ops, porcupine.Operation{ClientId: G, Input: linIn{Op: "iter"}, Call: t1, Output: linOut{Val: contentStr(sm), Err: errClass(err)}, Return: t1 + 1})
	ops = append(ops, porcupine.Operation{ClientId: G, Input: linIn{Op: "root"}, Call: t1 + 2, Output: linOut{Val: fmt.Sprintf("%x", []byte(m.GetRoot()))}, Return: t1 + 3})
	// a save of the final state to a fresh store must be complete: a fresh trie on it reads the final content
	fresh := util.NewMemoryNodeDB()
	if reopened { // the pending changes of a re-opened trie are a difference: save them on top of a copy of its store
		_ = mdb.NodeDB.Iterate(context.Background(), func(ctx context.Context, key util.Key, node util.Node) error {
			return fresh.PutNode(key, node)
		})
	}
	if serr := m.SaveChanges(context.Background(), fresh, false); serr != nil {
		c.Violate("", "final SaveChanges failed: %v", serr)
	} else {
		want := map[string][]byte{}
		for k, v := range sm {
			want[k] = []byte(v)
		}
		if f := lab.CheckMap(lab.NewMPT(fresh, c16version, m.GetRoot()), want, nil); f != "" {
			c.Violate("", "state saved after the concurrent history is not the final content: %s", f)
		}
		c.Count("final_saves_checked", 1)
	}
	// overlap measure
	overlaps, updReadOverlaps := 0, 0
	for i := range ops {
		for j := i + 1; j < len(ops); j++ {
			a, b := ops[i], ops[j]
			if a.ClientId != b.ClientId && a.Call < b.Return && b.Call < a.Return {
				overlaps++
				ia, ib := a.Input.(linIn), b.Input.(linIn)
				ua, ub := ia.Op == "ins" || ia.Op == "del", ib.Op == "ins" || ib.Op == "del"
				if ua || ub {
					updReadOverlaps++
				}
			}
		}
	}
	res, info := porcupine.CheckOperationsVerbose(c16model, ops, 30*time.Second)
	c.Count("histories", 1)
	c.Count("operations", int64(len(ops)))
	c.Count("overlapping_pairs", int64(overlaps))
	c.Count(fmt.Sprintf("gomaxprocs:%d", procs), 1)
	switch res {
	case porcupine.Ok:
		c.Count("linearizable", 1)
	case porcupine.Unknown:
		c.Count("inconclusive:porcupine timed out on a history", 1)
	default:
		_ = info
		sort.Slice(ops, func(i, j int) bool { return ops[i].Call < ops[j].Call })
		var sb strings.Builder
		for _, o := range ops {
			fmt.Fprintf(&sb, "[g%d %s @%d-%d] ", o.ClientId, c16model.DescribeOperation(o.Input, o.Output), o.Call, o.Return)
		}
		c.Violate("", "history of %d goroutines is not linearizable w.r.t. the map model with the canonical root (GOMAXPROCS=%d): %s", G, procs, sb.String())
	}
	if updReadOverlaps > 0 {
		c.Count("histories_with_overlapping_updates", 1)
		var sb strings.Builder
		for g := range scripts {
			fmt.Fprintf(&sb, "%v|", scripts[g])
		}
		c.NonTrivial(fw.Hash64(sb.String(), overlaps))
	}
	if c.Idx%500 == 3 {
		var hs []string
		for _, o := range ops {
			hs = append(hs, fmt.Sprintf("g%d %s @%d-%d", o.ClientId, c16model.DescribeOperation(o.Input, o.Output), o.Call, o.Return))
		}
		c.Sample(map[string]any{"history": hs, "verdict": string(res), "overlapping_pairs": overlaps})
	}
}

// c16readers: only readers, on a trie whose store lacks some nodes; results must equal the sequential results.
// c16lostRoot: the trie's root node itself is absent from the store. Concurrent lookups all fail with the missing-node
// class; afterwards the root is put back and an insert, a delete and a lookup must RETURN (a lock left behind by a failed
// lookup would block them for good: the stall monitor reports that) and work.
func c16lostRoot(c *fw.Ctx) {
	r := c.Rng
	store := util.NewMemoryNodeDB()
	m0 := lab.NewMPT(store, c16version, nil)
	paths := []string{"0a", "0b1c", "1d", "0a2e"}
	for i, p := range paths {
		_, _ = m0.Insert(util.Path(p), &lab.Val{B: []byte(fmt.Sprintf("v%d", i))})
	}
	root := append([]byte(nil), m0.GetRoot()...)
	rootNode, _ := store.GetNode(root)
	_ = store.DeleteNode(root)
	shared := lab.NewMPT(&jitterDB{NodeDB: store}, c16version, root)
	var wg sync.WaitGroup
	var bad atomic.Value
	for gi := 0; gi < 3+r.Intn(3); gi++ {
		wg.Add(1)
		go func(gi int) {
			defer wg.Done()
			for i := 0; i < 20; i++ {
				d, err := shared.GetNodeValueRaw(util.Path(paths[(gi+i)%len(paths)]))
				if err == nil {
					bad.Store(fmt.Sprintf("lookup on a trie whose root node is absent returned %q", d))
				}
				if i%5 == 0 {
					_, _ = shared.HasMissingNodes(context.Background())
				}
			}
		}(gi)
	}
	wg.Wait()
	_ = store.PutNode(root, rootNode)
	if _, err := shared.Insert(util.Path("2f"), &lab.Val{B: []byte("after")}); err != nil {
		bad.Store(fmt.Sprintf("insert after the root was put back failed: %v", err))
	}
	if _, err := shared.Delete(util.Path("1d")); err != nil {
		bad.Store(fmt.Sprintf("delete after the root was put back failed: %v", err))
	}
	if d, err := shared.GetNodeValueRaw(util.Path("2f")); err != nil || string(d) != "after" {
		bad.Store(fmt.Sprintf("lookup after the root was put back = %q, %v", d, err))
	}
	if b := bad.Load(); b != nil {
		c.Violate("", "trie whose root node was absent while readers ran: %s", b.(string))
	}
	c.Count("reader_runs_on_a_lost_root", 1)
}

// c16syncVsReads: one goroutine keeps syncing the trie to its own root (MergeDB with a small donor and a dead-node list,
// the way a state sync hands them over) while others read deletes, change sets and values. The content must stay what it
// was; the race detector watches the shared lists.
func c16syncVsReads(c *fw.Ctx) {
	r := c.Rng
	store := util.NewMemoryNodeDB()
	m0 := lab.NewMPT(store, c16version, nil)
	mdl := map[string][]byte{}
	for i, p := range []string{"0a", "0b1c", "1d", "0a2e", "1d3f"} {
		v := []byte(fmt.Sprintf("v%d", i))
		_, _ = m0.Insert(util.Path(p), &lab.Val{B: v})
		mdl[p] = v
	}
	root := append([]byte(nil), m0.GetRoot()...)
	nodes, _ := lab.Walk(store, root)
	donor := util.NewMemoryNodeDB()
	_ = donor.PutNode(nodes[len(nodes)-1].Key, nodes[len(nodes)-1].Node)
	dead := []util.Node{util.NewLeafNode(util.Path(""), util.Path("ff"), 1, &util.SecureSerializableValue{Buffer: []byte("dead")})}
	shared := lab.NewMPT(&jitterDB{NodeDB: store}, c16version, root)
	var wg sync.WaitGroup
	var bad atomic.Value
	wg.Add(1)
	go func() {
		defer wg.Done()
		for i := 0; i < 25; i++ {
			if err := shared.MergeDB(donor, root, dead); err != nil {
				bad.Store(fmt.Sprintf("MergeDB to the trie's own root failed: %v", err))
			}
		}
	}()
	// the pending set (the one synced node) is saved into the trie's own memory store again and again while cold handles
	// read that store
	wg.Add(2)
	go func() {
		defer wg.Done()
		for i := 0; i < 25; i++ {
			_ = shared.SaveChanges(context.Background(), store, false)
		}
	}()
	go func() {
		defer wg.Done()
		for i := 0; i < 25; i++ {
			cold := lab.NewMPT(store, c16version, root)
			for p, v := range mdl {
				if d, err := cold.GetNodeValueRaw(util.Path(p)); err != nil || !bytes.Equal(d, v) {
					bad.Store(fmt.Sprintf("cold lookup %q on the trie's store while it is being saved into = %q, %v", p, d, err))
				}
			}
		}
	}()
	for gi := 0; gi < 2+r.Intn(3); gi++ {
		wg.Add(1)
		go func(gi int) {
			defer wg.Done()
			for i := 0; i < 40; i++ {
				switch (gi + i) % 4 {
				case 0:
					_ = shared.GetDeletes()
				case 1:
					_, _, _, _ = shared.GetChanges()
				case 2:
					_ = shared.GetChangeCount()
				default:
					for p, v := range mdl {
						if d, err := shared.GetNodeValueRaw(util.Path(p)); err != nil || !bytes.Equal(d, v) {
							bad.Store(fmt.Sprintf("lookup %q while the trie is synced to its own root = %q, %v", p, d, err))
						}
						break
					}
				}
			}
		}(gi)
	}
	wg.Wait()
	if f := lab.CheckMap(shared, mdl, nil); f != "" {
		bad.Store("after the syncs: " + f)
	}
	if b := bad.Load(); b != nil {
		c.Violate("", "sync to the trie's own root concurrent with reads: %s", b.(string))
	}
	c.Count("reader_runs_beside_a_syncing_goroutine", 1)
}

var c16hashedInHandlers int64

func c16readers(c *fw.Ctx) {
	if c.Idx%8 == 5 {
		c16lostRoot(c)
		return
	}
	if c.Idx%8 == 6 {
		c16syncVsReads(c)
		return
	}
	r := c.Rng
	g := lab.NewPathGen(r)
	if strings.Contains(g.Alphabet, "7") {
		g.Alphabet = "01ef" // the writers below own the paths starting with 7: the preloaded content stays clear of them
	}
	g.MaxLen = 12
	full := util.NewMemoryNodeDB()
	m0 := lab.NewMPT(full, c16version, nil)
	mdl := map[string][]byte{}
	for i := 0; i < 20+r.Intn(30); i++ {
		p := g.Pick(lab.SortedKeys(mdl))
		v := lab.GenValue(r, i)
		if _, err := m0.Insert(util.Path(p), &lab.Val{B: v}); err == nil {
			mdl[p] = v
		}
	}
	root := m0.GetRoot()
	nodes, _ := lab.Walk(full, root)
	part := util.NewMemoryNodeDB()
	removed := 0
	for i, n := range nodes {
		if i > 0 && r.Intn(5) == 0 {
			removed++
			continue
		}
		_ = part.PutNode(n.Key, n.Node)
	}
	// sequential expectations from a private trie
	seq := lab.NewMPT(part, c16version, root)
	want := map[string]string{}
	keys := lab.SortedKeys(mdl)
	for _, k := range keys {
		d, err := seq.GetNodeValueRaw(util.Path(k))
		want[k] = string(d) + "|" + errClass(err)
	}
	wantMissing, _ := lab.NewMPT(part, c16version, root).HasMissingNodes(context.Background())
	shared := lab.NewMPT(&jitterDB{NodeDB: part}, c16version, root)
	if r.Intn(2) == 0 { // warm the node cache sequentially and commit it to the block cache below
		for _, k := range keys {
			_, _ = shared.GetNodeValueRaw(util.Path(k))
		}
		shared.Cache().Commit()
		c.Count("reader_runs_with_committed_node_cache", 1)
	}
	var wg sync.WaitGroup
	var bad atomic.Value
	G := 4 + r.Intn(5)
	seeds := make([]int64, G)
	for i := range seeds {
		seeds[i] = r.Int63()
	}
	for gi := 0; gi < G; gi++ {
		wg.Add(1)
		go func(gi int) {
			defer wg.Done()
			rr := rand.New(rand.NewSource(seeds[gi]))
			for i := 0; i < 60; i++ {
				if i%8 == 0 {
					runtime.Gosched()
				}
				switch rr.Intn(6) {
				case 0:
					if i%2 == 0 {
						// a traversal whose handler hashes every node it is handed (what a state sync does): keys and hashes agree,
						// and hashing is a read - two traversals may hash the same node object at the same time
						_ = shared.Iterate(context.Background(), func(ctx context.Context, path util.Path, key util.Key, node util.Node) error {
							if node != nil && len(key) > 0 {
								if h := node.GetHashBytes(); !bytes.Equal(h, key) {
									bad.Store(fmt.Sprintf("Iterate hands out node %x under key %x", h, key))
								}
								atomic.AddInt64(&c16hashedInHandlers, 1)
							}
							return nil
						}, util.NodeTypeLeafNode|util.NodeTypeFullNode|util.NodeTypeExtensionNode)
						break
					}
					_, _ = lab.IterAll(shared)
				case 1:
					hm, err := shared.HasMissingNodes(context.Background())
					if err == nil && hm != wantMissing {
						bad.Store(fmt.Sprintf("concurrent HasMissingNodes = %v, sequential = %v", hm, wantMissing))
					}
				case 2:
					if i%3 == 0 {
						_ = shared.Validate() // a read as well: it must return whatever the writers do
					}
					for _, k := range shared.GetMissingNodeKeys() {
						if n, err := part.GetNode(k); err == nil && n != nil {
							bad.Store(fmt.Sprintf("GetMissingNodeKeys lists %x which is present", k))
						}
					}
				default:
					k := keys[rr.Intn(len(keys))]
					d, err := shared.GetNodeValueRaw(util.Path(k))
					if got := string(d) + "|" + errClass(err); got != want[k] {
						bad.Store(fmt.Sprintf("concurrent lookup %q = %q, sequential result %q", k, got, want[k]))
					}
				}
			}
		}(gi)
	}
	// in two thirds of the runs 1..2 writers insert fresh paths (outside the preloaded alphabet, so no preloaded path and
	// no absent node is involved) while the readers run: the readers' expected results do not change
	W := r.Intn(3)
	type ins struct {
		p string
		v []byte
	}
	inserted := make([][]ins, W)
	wseeds := make([]int64, W)
	for i := range wseeds {
		wseeds[i] = r.Int63()
	}
	for wi := 0; wi < W; wi++ {
		wg.Add(1)
		go func(wi int) {
			defer wg.Done()
			rr := rand.New(rand.NewSource(wseeds[wi]))
			for i := 0; i < 20; i++ {
				p := fmt.Sprintf("7%d%02x", 7+wi, rr.Intn(64))
				if rr.Intn(2) == 0 {
					p += fmt.Sprintf("%02x", rr.Intn(4))
				}
				v := []byte(fmt.Sprintf("w%d-%d", wi, i))
				if _, err := shared.Insert(util.Path(p), &lab.Val{B: v}); err == nil {
					// later inserts of the same path by this writer overwrite: remember the last
					inserted[wi] = append(inserted[wi], ins{p, v})
				} else {
					bad.Store(fmt.Sprintf("writer: Insert(%q) failed: %v", p, err))
				}
			}
		}(wi)
	}
	wg.Wait()
	if b := bad.Load(); b == nil && W > 0 {
		last := map[string][]byte{}
		for _, l := range inserted {
			for _, e := range l {
				last[e.p] = e.v
			}
		}
		for p, v := range last {
			if d, err := shared.GetNodeValueRaw(util.Path(p)); err != nil || !bytes.Equal(d, v) {
				bad.Store(fmt.Sprintf("after the run: lookup of inserted path %q = %q, %v; last value written %q", p, d, err, v))
			}
		}
		for _, k := range keys {
			d, err := shared.GetNodeValueRaw(util.Path(k))
			if got := string(d) + "|" + errClass(err); got != want[k] {
				bad.Store(fmt.Sprintf("after the run: lookup %q = %q, before the writers %q", k, got, want[k]))
			}
		}
		c.Count("reader_runs_with_writers", 1)
	}
	if b := bad.Load(); b != nil {
		c.Violate("", "%d readers, %d writers of fresh paths, %d of %d nodes absent from the store: %s", G, W, removed, len(nodes), b.(string))
	}
	c.Count("reader_runs", 1)
	c.Count("nodes_hashed_in_concurrent_iterate_handlers", atomic.SwapInt64(&c16hashedInHandlers, 0))
	if removed > 0 {
		c.Count("reader_runs_with_missing_nodes", 1)
	}
}

// c16expiredSave: SaveChanges with a context that is already expired returns at once while its saver goroutine keeps
// running; what it writes must be the change set as of the call (a snapshot taken before SaveChanges returns), never
// nodes of updates that were invoked after it returned.
func c16expiredSave(c *fw.Ctx) {
	r := c.Rng
	procs := []int{1, 1, 2, 16}[r.Intn(4)]
	old := runtime.GOMAXPROCS(procs)
	defer runtime.GOMAXPROCS(old)
	g := lab.NewPathGen(r)
	m := lab.NewMPT(util.NewMemoryNodeDB(), c16version, nil)
	mdl := map[string][]byte{}
	for i := 0; i < 3+r.Intn(12); i++ {
		p := g.Pick(lab.SortedKeys(mdl))
		v := lab.GenValue(r, i)
		if _, err := m.Insert(util.Path(p), &lab.Val{B: v}); err == nil {
			mdl[p] = v
		}
	}
	rootAtCall := append([]byte(nil), m.GetRoot()...)
	_, changes, _, _ := m.GetChanges()
	atCall := map[string]bool{}
	for _, ch := range changes {
		atCall[string(ch.New.GetHashBytes())] = true
	}
	side := util.NewMemoryNodeDB()
	cctx, cancel := context.WithCancel(context.Background())
	cancel()
	_ = m.SaveChanges(cctx, side, false)
	// updates invoked after SaveChanges returned
	for i := 0; i < 5+r.Intn(40); i++ {
		p := g.Pick(lab.SortedKeys(mdl))
		v := lab.GenValue(r, 100+i)
		if _, err := m.Insert(util.Path(p), &lab.Val{B: v}); err == nil {
			mdl[p] = v
		}
	}
	// wait for the saver: the side store stops growing (bounded wait; the oracle below does not depend on the wait)
	last := int64(-1)
	for i := 0; i < 200; i++ {
		n := side.Size(context.Background())
		if n == last && n > 0 {
			break
		}
		last = n
		time.Sleep(200 * time.Microsecond)
	}
	foreign := 0
	var example []byte
	_ = side.Iterate(context.Background(), func(ctx context.Context, key util.Key, node util.Node) error {
		if !atCall[string(key)] {
			foreign++
			example = append([]byte(nil), key...)
		}
		return nil
	})
	if foreign > 0 {
		c.Violate("", "a SaveChanges call whose context had expired wrote %d node(s) that were not pending when it was called (e.g. %x): it saved updates invoked after it had returned (root at call %x, GOMAXPROCS=%d)", foreign, example, rootAtCall, procs)
	}
	c.Count("expired_save_runs", 1)
	c.Count("expired_save_nodes_written", side.Size(context.Background()))
}

func c16layout(tier string) (hist, readers, expired int) {
	if tier == "thorough" {
		return 150000, 20000, 30000
	}
	return 4800, 800, 1600
}

func runC16(c *fw.Ctx) {
	hist, rd, _ := c16layout(c.Tier)
	switch {
	case c.Idx < hist:
		c16history(c)
	case c.Idx < hist+rd:
		c16readers(c)
	default:
		c16expiredSave(c)
	}
}

func init() {
	fw.Register(&fw.Prop{
		ID:           "C16",
		Level:        "exploration",
		StallSeconds: 240,
		Race:         true,
		Rule: "histories: 3..6 goroutines x 4..8 (quick) / 4..11 (thorough) operations (insert with globally unique value, delete, lookup, full Iterate, GetRoot, GetChanges as a snapshot (root plus the content reachable through the returned change set, which must belong to one state), SaveChanges with a plain, an already cancelled and a 20 µs context + GetChangeCount) on 3..5 structurally colliding paths of one trie over a store wrapper that injects Gosched/µs sleeps at GetNode/PutNode/DeleteNode, " +
			"GOMAXPROCS in {1,2,4,16}; call/return stamped at the client boundary from one monotonic clock; a final sequential Iterate+GetRoot is appended. Each history is checked offline with porcupine against a sequential map model in which Iterate must equal the whole map and every root read must equal the independent canonical root (C02 reference) of the state at its linearization point. " +
			"a quarter of the histories run on a trie object re-opened at the root of preloaded content (saves then go to a layered store with includeDeletes=true); a quarter also merge child tries back (one insert each, through MergeChanges or MergeMPTChanges), modelled as a compare-and-set on the whole content; half of the histories start from a preloaded trie whose node cache was committed to the lower cache layer. expired-save runs: SaveChanges with an already cancelled context followed by 5..45 inserts; the side store may only receive nodes that were pending at the call. reader runs (half with a warmed and committed node cache): 4..8 goroutines doing lookups, Iterate, HasMissingNodes, GetMissingNodeKeys on a trie whose store lacks ~20% of the nodes; results must equal the sequential results; in two thirds of the reader runs 1..2 writers insert fresh paths at the same time (the readers' expected results do not change; afterwards every inserted path and every preloaded path is read again). Every eighth reader run instead has one goroutine sync the trie to its own root (MergeDB with a donor and a dead-node list) while others read deletes, change sets and values. Every eighth reader run instead removes the root node itself, lets 3..5 goroutines look up (all must fail), puts the root back and requires an insert, a delete and a lookup to return and work. A case that does not finish within 240 s (normal: well under a second plus at most 30 s of history checking) ends the worker and is reported: an operation did not return. Everything runs in the -race binary; each distinct race report (pair of outermost 0chain/common frames) is a violation. " +
			"non-trivial = history with at least one update overlapping another goroutine's operation; distinct by (scripts, overlap count)",
		Cases: func(tier string) int { h, r, e := c16layout(tier); return h + r + e },
		Run:   runC16,
		Floors: map[string]int64{"nodes_hashed_in_concurrent_iterate_handlers": 100000, "histories": 4500, "linearizable": 4500, "operations": 80000, "overlapping_pairs": 20000, "histories_with_overlapping_updates": 2000, "reader_runs": 550, "reader_runs_on_a_lost_root": 80, "reader_runs_beside_a_syncing_goroutine": 80, "reader_runs_with_writers": 280, "reader_runs_with_missing_nodes": 420, "final_saves_checked": 4500, "histories_with_committed_node_cache": 1500, "histories_on_a_reopened_trie": 800, "histories_with_merges": 800, "merges_accepted": 500, "merges_rejected": 100, "reader_runs_with_committed_node_cache": 50, "expired_save_runs": 1500,
			"gomaxprocs:1": 100, "gomaxprocs:16": 100},
		Assumptions: []string{
			"histories are small (<= 6 x 11 operations) and numerous; a porcupine timeout (30 s) would be inconclusive, never a violation",
			"race freedom = no report from the Go race detector on the interleavings that occurred",
		},
	})
}
