package props

import (
	"bytes"
	"fmt"
	"strings"
	"sync"

	"github.com/0chain/common/core/util"
	"github.com/linxGnu/grocksdb"

	"verif/harness/internal/fw"
	"verif/harness/internal/model"
	lab "verif/harness/internal/mptlab"
)

// C02 — the root is a canonical, format-stable commitment to content.

var (
	c02mu    sync.Mutex
	c02roots = map[string]uint64{} // root -> content digest (per worker process)
)

func contentDigest(m map[string][]byte) uint64 {
	var parts []any
	for _, k := range lab.SortedKeys(m) {
		parts = append(parts, k, m[k])
	}
	return fw.Hash64(parts...)
}

type c02hist struct {
	name string
	ops  []c02op
}
type c02op struct {
	del  bool
	path string
	val  []byte
}

func runC02(c *fw.Ctx) {
	var psc lab.Scratch // every path handed to the trie lives in this re-used buffer
	r := c.Rng
	g := lab.NewPathGen(r)
	version := int64(1 + r.Intn(1000))
	if r.Intn(20) == 0 {
		version = int64(r.Uint32())<<20 + 7
	}
	// history 0: random ops; defines content S
	target := map[string][]byte{}
	var h0 []c02op
	n0 := 4 + r.Intn(24)
	for i := 0; i < n0; i++ {
		p := g.Pick(lab.SortedKeys(target))
		if r.Intn(10) < 7 {
			v := lab.GenValue(r, i)
			h0 = append(h0, c02op{path: p, val: v})
			target[p] = v
		} else {
			h0 = append(h0, c02op{del: true, path: p})
			delete(target, p)
		}
	}
	keys := lab.SortedKeys(target)
	perm := func() []string {
		ks := append([]string(nil), keys...)
		r.Shuffle(len(ks), func(i, j int) { ks[i], ks[j] = ks[j], ks[i] })
		return ks
	}
	hists := []c02hist{{"random", h0}}
	// shuffled inserts
	{
		var ops []c02op
		for _, k := range perm() {
			ops = append(ops, c02op{path: k, val: target[k]})
		}
		hists = append(hists, c02hist{"shuffled-inserts", ops})
	}
	// inserts plus extra keys later deleted (extras related to live paths: prefixes, extensions, siblings)
	{
		var ops []c02op
		extras := map[string]bool{}
		for i := 0; i < 2+r.Intn(6); i++ {
			e := g.Pick(keys)
			if _, live := target[e]; !live {
				extras[e] = true
			}
		}
		var all []string
		all = append(all, perm()...)
		for e := range extras {
			all = append(all, e)
		}
		r.Shuffle(len(all), func(i, j int) { all[i], all[j] = all[j], all[i] })
		for _, k := range all {
			if extras[k] {
				ops = append(ops, c02op{path: k, val: lab.GenValue(r, 99)})
			} else {
				ops = append(ops, c02op{path: k, val: target[k]})
			}
		}
		var ex []string
		for e := range extras {
			ex = append(ex, e)
		}
		r.Shuffle(len(ex), func(i, j int) { ex[i], ex[j] = ex[j], ex[i] })
		for _, e := range ex {
			ops = append(ops, c02op{del: true, path: e})
		}
		hists = append(hists, c02hist{"extras-then-deleted", ops})
	}
	// overwrite chains and delete-then-reinsert
	{
		var ops []c02op
		for _, k := range perm() {
			ops = append(ops, c02op{path: k, val: lab.GenValue(r, 7)})
		}
		for _, k := range perm() {
			switch r.Intn(3) {
			case 0:
				ops = append(ops, c02op{del: true, path: k}, c02op{path: k, val: target[k]})
			default:
				ops = append(ops, c02op{path: k, val: target[k]})
			}
		}
		hists = append(hists, c02hist{"overwrite-and-reinsert", ops})
	}
	// interior (shortest) paths last / first
	{
		ks := append([]string(nil), keys...)
		for i := 1; i < len(ks); i++ {
			for j := i; j > 0 && len(ks[j]) > len(ks[j-1]); j-- {
				ks[j], ks[j-1] = ks[j-1], ks[j]
			}
		}
		var ops []c02op
		for _, k := range ks { // longest first, interior paths late
			ops = append(ops, c02op{path: k, val: target[k]})
		}
		hists = append(hists, c02hist{"interior-late", ops})
		var ops2 []c02op
		for i := len(ks) - 1; i >= 0; i-- {
			ops2 = append(ops2, c02op{path: ks[i], val: target[ks[i]]})
		}
		hists = append(hists, c02hist{"interior-early", ops2})
	}

	// the root is a function of content alone: not of the package's debug-logging switch either
	if (c.Idx/16+c.Idx)%8 == 5 {
		util.DebugMPTNode = true
		defer func() { util.DebugMPTNode = false }()
		c.Count("cases_with_debug_switch_on", 1)
	}
	var st model.CanonStats
	want := model.CanonRootStats(version, target, &st)
	c.Describe(map[string]any{"version": version, "content": lab.FmtContent(target), "histories": len(hists)})
	nontrivial := st.Branches > 0 && len(target) >= 2
	for hi, h := range hists {
		persistent := (c.Idx+hi)%3 == 0
		var db util.NodeDB
		diskPath := fmt.Sprintf("/verif-stub/C02/%d/%d/%d", c.Seed, c.Idx, hi)
		if persistent {
			p, err := util.NewPNodeDB(diskPath, "")
			if err != nil {
				panic(err)
			}
			db = p
		} else {
			db = util.NewMemoryNodeDB()
		}
		m := lab.NewMPT(db, version, nil)
		cur := map[string][]byte{}
		var tr []string
		var keptRoots, keptRefs [][]byte
		bad := false
		reopenEvery := 0
		if (c.Idx+hi)%4 == 1 {
			reopenEvery = 2 + r.Intn(4) // every few operations the history continues on a fresh trie object (cold node cache) on the same store and root
		}
		for oi, op := range h.ops {
			if reopenEvery > 0 && oi > 0 && oi%reopenEvery == 0 {
				m = lab.NewMPT(db, version, m.GetRoot())
				tr = append(tr, "reopen")
				c.Count("handles_reopened_mid_history", 1)
			}
			if op.del {
				tr = append(tr, fmt.Sprintf("del %q", op.path))
				_, _ = m.Delete(psc.P(op.path))
				delete(cur, op.path)
			} else {
				tr = append(tr, fmt.Sprintf("ins %q=%q", op.path, op.val))
				if _, err := m.Insert(psc.P(op.path), &lab.Val{B: op.val}); err != nil {
					c.Violate("", "history %s: Insert(%q) failed: %v; trace: %s", h.name, op.path, err, strings.Join(tr, "; "))
					bad = true
					break
				}
				cur[op.path] = op.val
			}
			c.Count("root_comparisons", 1)
			ref := model.CanonRoot(version, cur)
			keptRoots, keptRefs = append(keptRoots, m.GetRoot()), append(keptRefs, ref) // the slice as handed out, not a copy
			if !bytes.Equal(ref, m.GetRoot()) {
				c.Violate("", "history %s at version %d: root %x differs from the independent canonical root %x for content %s; trace: %s",
					h.name, version, m.GetRoot(), ref, lab.FmtContent(cur), strings.Join(tr, "; "))
				bad = true
				break
			}
		}
		if !bad {
			// a root handed out earlier is a value: later operations of the same trie must not change it
			for i := range keptRoots {
				if !bytes.Equal(keptRoots[i], keptRefs[i]) {
					c.Violate("", "history %s: the root returned after operation %d was %x and reads %x after later operations of the same trie; trace: %s", h.name, i+1, keptRefs[i], keptRoots[i], strings.Join(tr, "; "))
					bad = true
					break
				}
			}
			c.Count("kept_roots_rechecked", int64(len(keptRoots)))
		}
		if !bad {
			if !bytes.Equal(m.GetRoot(), want) {
				c.Violate("", "history %s ends with root %x, other histories with the same content end with %x", h.name, m.GetRoot(), want)
			}
			// format read-back from stored encodings with the harness' own parser
			var get func([]byte) []byte
			if persistent {
				snap := grocksdb.Control(diskPath).Snapshot()["default"]
				get = func(k []byte) []byte { return snap[string(k)] }
			} else {
				get = func(k []byte) []byte {
					n, err := db.GetNode(k)
					if err != nil || n == nil {
						return nil
					}
					return n.Encode()
				}
			}
			got, nn, err := model.ReadContent(m.GetRoot(), get)
			if err != nil {
				c.Violate("", "history %s: stored encodings do not read back: %v; trace: %s", h.name, err, strings.Join(tr, "; "))
			} else if !lab.EqualContent(got, target) {
				c.Violate("", "history %s: stored encodings read back as %s, content is %s", h.name, lab.FmtContent(got), lab.FmtContent(target))
			} else {
				c.Count("nodes_read_back", int64(nn))
			}
			c.Count("histories", 1)
			c.Count("history:"+h.name, 1)
		}
		if persistent {
			db.(*util.PNodeDB).Close()
			grocksdb.DropDisk(diskPath)
		}
		if bad {
			return
		}
	}
	// independent tries built at the same time in several goroutines (nothing shared between them but the package):
	// every one must still arrive at the canonical root
	if (c.Idx/16+c.Idx)%8 == 3 {
		roots := make([][]byte, len(hists))
		var wg sync.WaitGroup
		for hi := range hists {
			wg.Add(1)
			go func(hi int) {
				defer wg.Done()
				defer func() { _ = recover() }()
				var psc lab.Scratch
				m := lab.NewMPT(util.NewMemoryNodeDB(), version, nil)
				for rep := 0; rep < 3; rep++ {
					for _, op := range hists[hi].ops {
						if op.del {
							_, _ = m.Delete(psc.P(op.path))
						} else if _, err := m.Insert(psc.P(op.path), &lab.Val{B: op.val}); err != nil {
							return
						}
					}
				}
				roots[hi] = append([]byte{}, m.GetRoot()...)
			}(hi)
		}
		wg.Wait()
		for hi, rt := range roots {
			if rt == nil || !bytes.Equal(rt, want) {
				c.Violate("", "history %s replayed three times on a private trie while %d other goroutines build their own tries: root %x, the canonical root of the content is %x", hists[hi].name, len(hists)-1, rt, want)
				break
			}
		}
		c.Count("concurrent_private_trie_groups", 1)
	}
	// injectivity over the contents this worker has seen (same version is part of the key)
	rk := fmt.Sprintf("%d/%x", version, want)
	cd := contentDigest(target)
	c02mu.Lock()
	prev, seen := c02roots[rk]
	c02roots[rk] = cd
	c02mu.Unlock()
	if seen && prev != cd {
		c.Violate("", "two different contents have the same root %x at version %d; one is %s", want, version, lab.FmtContent(target))
	}
	c.Distinct("contents", cd)
	c.Count("canon_leaves", int64(st.Leaves))
	c.Count("canon_branches", int64(st.Branches))
	c.Count("canon_extensions", int64(st.Exts))
	c.Count("canon_branch_values", int64(st.BranchValues))
	if nontrivial {
		c.NonTrivial(fw.Hash64(version, cd))
	}
	if c.Idx < 3 {
		c.Sample(map[string]any{"version": version, "content": lab.FmtContent(target), "canonical_root": fmt.Sprintf("%x", want), "histories": []string{"random", "shuffled-inserts", "extras-then-deleted", "overwrite-and-reinsert", "interior-late", "interior-early"}})
	}
}

func init() {
	fw.Register(&fw.Prop{
		ID:    "C02",
		Level: "exploration",
		Rule: "(paths are handed to the trie in one re-used scratch buffer per replay) each case draws a version and a content S (by a random insert/delete history over structure-seeking paths) and then replays five more histories that end in S at that version: shuffled inserts; inserts mixed with related extra paths that are deleted afterwards; " +
			"overwrite chains with delete-then-reinsert; interior paths late; interior paths early. After every operation of every history the root must equal an independent canonical-trie hasher applied to the model content; all final roots must be identical; a quarter of the histories continue on a fresh trie object (cold node cache, same store and root) every few operations; every root slice handed out during a history is kept (not copied) and must still read the same at the end of the history; " +
			"the stored encodings reachable from the root are parsed by the harness' own decoder and must reproduce S (raw bytes from the persistent store for a third of the histories); a per-worker root->content table checks injectivity; every 8th case runs with the package's debug switch (DebugMPTNode) on; every 8th case also replays its six histories (three times each) in six concurrent goroutines on private tries and requires the canonical root from each. " +
			"non-trivial = content with >=2 entries whose canonical trie has at least one branch; distinct by (version, content)",
		Cases: func(tier string) int {
			if tier == "thorough" {
				return 320000
			}
			return 12800
		},
		Run: runC02,
		Floors: map[string]int64{"histories": 30000, "root_comparisons": 300000, "canon_extensions": 1000, "canon_branch_values": 1000, "nodes_read_back": 100000,
			"history:extras-then-deleted": 1000, "history:overwrite-and-reinsert": 1000, "distinct:contents": 3000, "cases_with_debug_switch_on": 1000, "kept_roots_rechecked": 300000, "handles_reopened_mid_history": 20000, "concurrent_private_trie_groups": 1000},
		Assumptions: []string{
			"published format as read from the code at the pinned commit: sha3-256(LE64(origin) ‖ body) with ':'-separated bodies; the reference hasher shares no code with /repo",
			"fixed version per case: every node's origin equals the trie version",
			"injectivity is checked over the contents one worker process generates, not across workers",
		},
	})
}
