package props

import (
	"bytes"
	"fmt"
	"math/rand"
	"regexp"
	"runtime"
	"strconv"
	"strings"
	"sync"
	"sync/atomic"
	"time"

	"github.com/0chain/common/core/logging"
	"go.uber.org/zap"
	"go.uber.org/zap/zapcore"
	"go.uber.org/zap/zaptest/observer"

	"verif/harness/internal/fw"
)

// C20 — the in-memory log buffer keeps the most recent entries of all loggers (root and derived), newest first.

func newMemLogger() (*logging.MemLogger, *zap.Logger) {
	return newMemLoggerAt(zapcore.DebugLevel)
}

func newMemLoggerAt(enab zapcore.LevelEnabler) (*logging.MemLogger, *zap.Logger) {
	enc := &flakyEncoder{Encoder: zapcore.NewJSONEncoder(zap.NewProductionEncoderConfig()), failNext: &c20failClone}
	ml := logging.NewMemLogger(enc, enab)
	return ml, zap.New(ml.GetCore())
}

// flakyEncoder is the buffer's encoder; while *failNext is set its Clone panics once (an encoder that cannot be copied
// at that moment: the derivation fails, the caller contains the panic, the buffer has to stay usable).
type flakyEncoder struct {
	zapcore.Encoder
	failNext *int32
}

var c20failClone int32

func (f *flakyEncoder) Clone() zapcore.Encoder {
	if atomic.CompareAndSwapInt32(f.failNext, 1, 0) {
		panic("flakyEncoder: Clone refused")
	}
	return &flakyEncoder{Encoder: f.Encoder.Clone(), failNext: f.failNext}
}

// tryWith derives a logger and contains a panic of the derivation, as a recover middleware would.
func tryWith(l *zap.Logger, fields ...zap.Field) (d *zap.Logger, panicked bool) {
	defer func() {
		if recover() != nil {
			panicked = true
		}
	}()
	return l.With(fields...), false
}

// snapshotDetail renders level and call fields of every retained entry ("id|level|n=<v>").
func snapshotDetail(ml *logging.MemLogger) []string {
	var out []string
	for _, e := range ml.GetLogs() {
		if e == nil {
			out = append(out, "<nil>")
			continue
		}
		d := e.Message + "|" + e.Level.String()
		for _, f := range e.Context {
			if f.Key == "n" {
				d += fmt.Sprintf("|n=%d", f.Integer)
			}
		}
		out = append(out, d)
	}
	return out
}

func snapshotIDs(ml *logging.MemLogger) []string {
	var out []string
	for _, e := range ml.GetLogs() {
		if e == nil {
			out = append(out, "<nil>")
			continue
		}
		out = append(out, e.Message)
	}
	return out
}

var idRe = regexp.MustCompile(`id-[0-9]+-[0-9]+`)

func c20sequential(c *fw.Ctx) {
	r := c.Rng
	capacity := logging.BufferSize
	totals := []int{0, 1, 2, 17, capacity - 1, capacity, capacity + 1, 2 * capacity, 2*capacity + 3, 5000}
	total := totals[c.Idx%len(totals)]
	if r.Intn(4) == 0 {
		total = r.Intn(3 * capacity)
	}
	// half of the histories run on an adjustable level (the way InitLogging builds the logger): the level is changed
	// mid-stream, and a write counts as written iff its level is enabled at that moment, through whichever logger
	var alvl *zap.AtomicLevel
	var ml *logging.MemLogger
	var root *zap.Logger
	if c.Idx%2 == 1 {
		a := zap.NewAtomicLevelAt(zapcore.DebugLevel)
		alvl = &a
		ml, root = newMemLoggerAt(a)
		if c.Idx%4 == 3 {
			// the way InitLogging wires it: the buffer is one leg of a tee next to a core that takes everything, so the
			// logger asks the tee (not the buffer) whether a level is enabled - the buffer has to filter on its own level
			verbose, _ := observer.New(zapcore.DebugLevel)
			root = zap.New(zapcore.NewTee(ml.GetCore(), verbose))
			c.Count("histories_with_the_buffer_beside_a_verbose_core", 1)
		}
		c.Count("histories_on_adjustable_level", 1)
	} else {
		ml, root = newMemLogger()
	}
	if c.Idx%8 == 2 || c.Idx%8 == 6 {
		// a coarse clock: many consecutive entries carry the same timestamp (every 25th write ticks, or the clock stands
		// still). "Newest first" is the order of writing, not of the time stamps
		every := int64(25)
		if c.Idx%8 == 6 {
			every = 1 << 40
		}
		root = root.WithOptions(zap.WithClock(&coarseClock{every: every}))
		c.Count("histories_on_a_coarse_clock", 1)
	}
	loggers := []*zap.Logger{root}
	names := []string{"root"}
	var written []string
	var detail []string // id|level|n=<v> of every accepted write
	attempts := 0
	// points at which derived loggers are created: before any write, mid-stream, after wrap
	deriveAt := map[int]bool{}
	nd := r.Intn(5)
	for i := 0; i < nd; i++ {
		switch r.Intn(3) {
		case 0:
			deriveAt[0] = true
		case 1:
			if total > 0 {
				deriveAt[r.Intn(total)] = true
			}
		default:
			if total > capacity {
				deriveAt[capacity+r.Intn(total-capacity)] = true
			}
		}
	}
	var events []string
	derive := func(i int) {
		parent := r.Intn(len(loggers)) // derived from the root or from another derived logger
		if alvl == nil && r.Intn(6) == 0 {
			// a field whose rendering itself logs into the buffer (a Stringer that reports through the root logger): With
			// evaluates it while the derived core is being built; the entry it writes counts like any other
			sid := fmt.Sprintf("id-98-%d", len(written))
			d := loggers[parent].With(zap.Stringer("peer", &loggingStringer{log: root, id: sid}))
			written = append(written, sid)
			detail = append(detail, sid+"|info")
			loggers = append(loggers, d)
			names = append(names, fmt.Sprintf("d%d(with a logging field, from %s at write %d)", len(loggers)-1, names[parent], i))
			events = append(events, fmt.Sprintf("@%d derive %s", i, names[len(names)-1]))
			c.Count("derivations_with_a_field_that_logs", 1)
			return
		}
		if r.Intn(8) == 0 {
			// the derivation fails inside the encoder and the caller contains the panic: no logger comes out of it, and
			// everything that exists keeps writing into and reading from the buffer (a lock left behind shows as a stall)
			atomic.StoreInt32(&c20failClone, 1)
			_, panicked := tryWith(loggers[parent], zap.Int("derived", len(loggers)))
			atomic.StoreInt32(&c20failClone, 0)
			if panicked {
				c.Count("derivations_that_failed_inside_the_encoder", 1)
			}
			events = append(events, fmt.Sprintf("@%d failed derivation from %s", i, names[parent]))
			return
		}
		d := loggers[parent].With(zap.Int("derived", len(loggers)), zap.String("at", fmt.Sprint(i)))
		loggers = append(loggers, d)
		names = append(names, fmt.Sprintf("d%d(from %s at write %d)", len(loggers)-1, names[parent], i))
		events = append(events, fmt.Sprintf("@%d derive %s", i, names[len(names)-1]))
	}
	// a snapshot handed out earlier stays what it was, whatever is written and read afterwards
	var heldSnap []*observer.LoggedEntry
	var heldIDs []string
	check := func(when string) bool {
		want := written
		if len(want) > capacity {
			want = want[len(want)-capacity:]
		}
		got := snapshotIDs(ml)
		if heldSnap != nil {
			if len(heldSnap) != len(heldIDs) {
				c.Violate("", "a snapshot handed out earlier changed its length from %d to %d (%s)", len(heldIDs), len(heldSnap), when)
				return false
			}
			for i, e := range heldSnap {
				if e == nil || e.Message != heldIDs[i] {
					m := "<nil>"
					if e != nil {
						m = e.Message
					}
					c.Violate("", "a snapshot handed out earlier changed: entry %d was %q and is now %q (%s; %d written since the buffer was created)", i, heldIDs[i], m, when, len(written))
					return false
				}
			}
			c.Count("held_snapshots_rechecked", 1)
		}
		if r.Intn(3) == 0 || heldSnap == nil {
			heldSnap = ml.GetLogs()
			heldIDs = heldIDs[:0]
			for _, e := range heldSnap {
				if e == nil {
					heldIDs = append(heldIDs, "<nil>")
				} else {
					heldIDs = append(heldIDs, e.Message)
				}
			}
		}
		// expected snapshot: newest first
		if len(got) != len(want) {
			c.Violate("", "GetLogs returned %d entries, expected the most recent %d of %d written (%s); derivations: %s", len(got), len(want), len(written), when, strings.Join(events, "; "))
			return false
		}
		for i := range got {
			if got[i] != want[len(want)-1-i] {
				c.Violate("", "GetLogs entry %d is %q, expected %q (newest first; %s; %d written, capacity %d); first entries got %v want-newest-first %v; derivations: %s",
					i, got[i], want[len(want)-1-i], when, len(written), capacity, head(got, 6), head(reverse(want), 6), strings.Join(events, "; "))
				return false
			}
		}
		if r.Intn(4) == 0 { // level and call fields of every retained entry
			wd := detail
			if len(wd) > capacity {
				wd = wd[len(wd)-capacity:]
			}
			gd := snapshotDetail(ml)
			for i := range gd {
				if gd[i] != wd[len(wd)-1-i] {
					c.Violate("", "GetLogs entry %d is %q, the entry written was %q (%s)", i, gd[i], wd[len(wd)-1-i], when)
					return false
				}
			}
			c.Count("snapshots_compared_in_detail", 1)
		}
		c.Count("snapshots_compared", 1)
		return true
	}
	// read schedule: a read every `gap` writes starting at a random offset, so that consecutive reads are separated by
	// 1, a few, capacity-1, exactly capacity, capacity+1 or exactly 2*capacity writes; the boundary reads are extra
	gaps := []int{257, capacity, 1, 2 * capacity, capacity - 1, 64, capacity + 1, capacity / 2}
	gap := gaps[(c.Idx/len(totals))%len(gaps)]
	if gap == 1 && total > capacity+1 {
		gap = 17
	}
	off := r.Intn(gap)
	boundaryReads := r.Intn(2) == 0
	gapName := map[int]string{capacity: "capacity", 2 * capacity: "2xcapacity", 1: "1"}[gap]
	if gapName != "" {
		c.Count("read_gap:"+gapName, 1)
	}
	for i := 0; i < total; i++ {
		if deriveAt[i] {
			derive(i)
		}
		li := r.Intn(len(loggers))
		if len(loggers) > 1 && r.Intn(3) == 0 {
			li = len(loggers) - 1
		}
		if alvl != nil && r.Intn(40) == 0 {
			nl := []zapcore.Level{zapcore.DebugLevel, zapcore.InfoLevel, zapcore.WarnLevel, zapcore.ErrorLevel, zapcore.DebugLevel}[r.Intn(5)]
			alvl.SetLevel(nl)
			events = append(events, fmt.Sprintf("@%d level=%s", i, nl))
			c.Count("level_changes", 1)
		}
		id := fmt.Sprintf("id-%d-%d", li, i)
		var wl zapcore.Level
		d := id
		switch r.Intn(3) {
		case 0:
			wl = zapcore.InfoLevel
			loggers[li].Info(id)
			d += "|info"
		case 1:
			wl = zapcore.DebugLevel
			loggers[li].Debug(id, zap.Int("n", i))
			d += fmt.Sprintf("|debug|n=%d", i)
		default:
			wl = zapcore.ErrorLevel
			loggers[li].Error(id)
			d += "|error"
		}
		attempts++
		if alvl == nil || alvl.Enabled(wl) {
			written = append(written, id)
			detail = append(detail, d)
		} else {
			c.Count("writes_below_the_level", 1)
		}
		if i%gap == off || i == total-1 || (boundaryReads && (i == capacity-1 || i == capacity)) {
			if !check(fmt.Sprintf("after write %d of %d", i+1, total)) {
				return
			}
		}
	}
	if total == 0 && !check("empty buffer") {
		return
	}
	// WriteLogs prints the same ids in the same order
	for _, lvl := range []int{1, 2, 3} {
		var buf bytes.Buffer
		ml.WriteLogs(&buf, lvl)
		ids := idRe.FindAllString(buf.String(), -1)
		want := written
		if len(want) > capacity {
			want = want[len(want)-capacity:]
		}
		if len(ids) != len(want) {
			c.Violate("", "WriteLogs(detail %d) printed %d entries, expected %d", lvl, len(ids), len(want))
			return
		}
		for i := range ids {
			if ids[i] != want[len(want)-1-i] {
				c.Violate("", "WriteLogs(detail %d) entry %d is %q, expected %q", lvl, i, ids[i], want[len(want)-1-i])
				return
			}
		}
	}
	c.Count("sequential_histories", 1)
	c.Count("entries_written", int64(len(written)))
	c.Count("derived_loggers", int64(len(loggers)-1))
	if len(written) > capacity {
		c.Count("histories_above_capacity", 1)
	}
	if len(loggers) > 1 && total > 0 {
		c.NonTrivial(fw.Hash64("seq", total, strings.Join(events, ";"), c.Idx))
	}
	if c.Idx < 3 {
		c.Sample(map[string]any{"total_written": total, "capacity": capacity, "derivations": events, "newest_first_head": head(snapshotIDs(ml), 5)})
	}
}

// loggingStringer writes one entry through its logger when it is rendered.
type loggingStringer struct {
	log *zap.Logger
	id  string
}

func (l *loggingStringer) String() string { l.log.Info(l.id); return "peer" }

// coarseClock ticks once every `every` calls.
type coarseClock struct {
	n     int64
	every int64
}

func (k *coarseClock) Now() time.Time {
	n := atomic.AddInt64(&k.n, 1)
	return time.Unix(1700000000+n/k.every, 0)
}
func (k *coarseClock) NewTicker(d time.Duration) *time.Ticker { return time.NewTicker(d) }

// yieldingBuffer collects what is written to it and yields the processor before copying the bytes.
type yieldingBuffer struct{ bytes.Buffer }

func (y *yieldingBuffer) Write(p []byte) (int, error) {
	runtime.Gosched()
	return y.Buffer.Write(p)
}

func head(s []string, n int) []string {
	if len(s) > n {
		return s[:n]
	}
	return s
}

func reverse(s []string) []string {
	o := make([]string, len(s))
	for i := range s {
		o[len(s)-1-i] = s[i]
	}
	return o
}

func c20concurrent(c *fw.Ctx) {
	r := c.Rng
	capacity := logging.BufferSize
	procs := []int{1, 2, 4, 16}[r.Intn(4)]
	old := runtime.GOMAXPROCS(procs)
	defer runtime.GOMAXPROCS(old)
	ml, root := newMemLogger()
	G := 2 + r.Intn(7)
	per := []int{10, 100, capacity / G, capacity/G + 1, 400, 1500}[r.Intn(6)]
	loggers := make([]*zap.Logger, G)
	for g := range loggers {
		switch r.Intn(3) {
		case 0:
			loggers[g] = root
		case 1:
			loggers[g] = root.With(zap.Int("g", g))
		default:
			loggers[g] = root.With(zap.Int("g", g)).With(zap.String("x", "y"))
		}
	}
	withSnapshots := c.Idx%2 == 1
	var wg sync.WaitGroup
	gate := make(chan struct{})
	prewrite := r.Intn(3) * 300 // entries written sequentially first, so that derived loggers are created mid-stream
	for i := 0; i < prewrite; i++ {
		root.Info(fmt.Sprintf("id-%d-%d", 99, i))
	}
	if prewrite > 0 && r.Intn(2) == 0 { // loggers derived after some writes
		for g := range loggers {
			if r.Intn(2) == 0 {
				loggers[g] = root.With(zap.Int("late", g))
			}
		}
	}
	for g := 0; g < G; g++ {
		wg.Add(1)
		go func(g int) {
			defer wg.Done()
			<-gate
			for i := 0; i < per; i++ {
				loggers[g].Info(fmt.Sprintf("id-%d-%d", g, i))
				if i%64 == 0 {
					runtime.Gosched()
				}
			}
		}(g)
	}
	var snapErr string
	var snapMu sync.Mutex
	stop := make(chan struct{})
	var swg sync.WaitGroup
	nsnap := 0
	if withSnapshots {
		nsnap = 1 + c.Idx%4/2 // one or two concurrent dumpers
	}
	for si := 0; si < nsnap; si++ {
		swg.Add(1)
		go func(si int) {
			defer swg.Done()
			rr := rand.New(rand.NewSource(int64(c.Idx*7 + si)))
			for {
				select {
				case <-stop:
					return
				default:
				}
				var ids []string
				if rr.Intn(3) == 0 {
					var buf yieldingBuffer // a writer that gives the processor away in the middle of every Write (a slow client)
					ml.WriteLogs(&buf, 2)
					ids = idRe.FindAllString(buf.String(), -1)
					if n := strings.Count(buf.String(), "\n"); n != len(ids) {
						snapMu.Lock()
						snapErr = fmt.Sprintf("WriteLogs printed %d lines but %d well-formed entry ids", n, len(ids))
						snapMu.Unlock()
					}
				} else {
					ids = snapshotIDs(ml)
				}
				if f := c20checkSnapshot(ids, capacity, false, 0, nil); f != "" {
					snapMu.Lock()
					snapErr = f
					snapMu.Unlock()
				}
				runtime.Gosched()
			}
		}(si)
	}
	close(gate)
	wg.Wait()
	close(stop)
	swg.Wait()
	desc := fmt.Sprintf("%d goroutines x %d entries after %d sequential entries, GOMAXPROCS=%d, concurrent snapshots=%v", G, per, prewrite, procs, withSnapshots)
	if snapErr != "" {
		c.Violate("", "snapshot taken while writers were running: %s (%s)", snapErr, desc)
		return
	}
	total := prewrite + G*per
	perG := map[int]int{99: prewrite}
	for g := 0; g < G; g++ {
		perG[g] = per
	}
	if f := c20checkSnapshot(snapshotIDs(ml), capacity, true, total, perG); f != "" {
		c.Violate("", "at quiescence: %s (%s)", f, desc)
		return
	}
	c.Count("concurrent_runs", 1)
	c.Count("entries_written", int64(total))
	if total > capacity {
		c.Count("concurrent_runs_above_capacity", 1)
	}
	if withSnapshots {
		c.Count("concurrent_runs_with_snapshots", 1)
	}
	c.NonTrivial(fw.Hash64("conc", c.Idx, desc))
	if c.Idx%97 == 0 {
		c.Sample(map[string]any{"concurrent_run": desc})
	}
}

// c20checkSnapshot: entries distinct, every one written (well-formed id), and per goroutine the retained entries appear in
// newest-first order; at quiescence additionally exactly min(total, capacity) entries and per goroutine a SUFFIX of its writes.
func c20checkSnapshot(ids []string, capacity int, quiescent bool, total int, perG map[int]int) string {
	if len(ids) > capacity {
		return fmt.Sprintf("snapshot holds %d entries, capacity is %d", len(ids), capacity)
	}
	seen := map[string]bool{}
	lastIdx := map[int]int{}
	minIdx := map[int]int{}
	cnt := map[int]int{}
	for pos, id := range ids {
		if seen[id] {
			return fmt.Sprintf("entry %q appears twice in one snapshot", id)
		}
		seen[id] = true
		parts := strings.Split(id, "-")
		if len(parts) != 3 || parts[0] != "id" {
			return fmt.Sprintf("entry %d is %q, which was never written", pos, id)
		}
		g, e1 := strconv.Atoi(parts[1])
		i, e2 := strconv.Atoi(parts[2])
		if e1 != nil || e2 != nil {
			return fmt.Sprintf("entry %d is %q, which was never written", pos, id)
		}
		if prev, ok := lastIdx[g]; ok && i >= prev {
			return fmt.Sprintf("entries of writer %d are not newest-first: %d appears after %d", g, i, prev)
		}
		lastIdx[g] = i
		minIdx[g] = i
		cnt[g]++
	}
	if !quiescent {
		return ""
	}
	want := total
	if want > capacity {
		want = capacity
	}
	if len(ids) != want {
		return fmt.Sprintf("%d entries retained, expected min(total=%d, capacity=%d)", len(ids), total, capacity)
	}
	for g, n := range cnt {
		// retained entries of a writer must be its last n writes (a suffix): the smallest retained index is written-n
		if minIdx[g] != perG[g]-n {
			return fmt.Sprintf("writer %d wrote %d entries, %d are retained but the oldest retained is #%d: a newer entry was lost or overwritten by an older one", g, perG[g], n, minIdx[g])
		}
	}
	return ""
}

func c20layout(tier string) (seq, conc int) {
	if tier == "thorough" {
		return 48000, 4000
	}
	return 4800, 200
}

func runC20(c *fw.Ctx) {
	seq, _ := c20layout(c.Tier)
	if c.Idx < seq && c.Idx%250 == 9 {
		c20initLogging(c)
	} else if c.Idx < seq {
		c20sequential(c)
	} else {
		c20concurrent(c)
	}
}

func init() {
	fw.Register(&fw.Prop{
		ID:    "C20",
		Level: "exploration",
		Race:  true,
		// a concurrent run normally takes well under a second; if no case completes for 120 s (writers or a dump blocked
		// for good) the worker stops and the driver reports the case
		StallSeconds: 120,
		Rule: "sequential histories (a quarter of them on a coarse clock: 25 consecutive entries, or all, carry the same timestamp): a root zap.Logger on MemLogger.GetCore() (half of them on an adjustable zap.AtomicLevel that is changed mid-stream: a write counts iff its level is enabled at that moment; half of these build the logger on a tee of the buffer and a core that takes every level, as InitLogging does; a quarter of the reads also compare level and call fields of every entry) and 0..4 loggers derived with With(fields) from the root or from each other, created before any write, mid-stream or after the ring wrapped; writes interleaved through all loggers, each with a unique id; totals 0, 1, 2, 17, capacity-1, capacity, capacity+1, 2*capacity, 2*capacity+3, 5000 and random " +
			"(capacity read from logging.BufferSize). After every 257th write, at the capacity boundary and at the end GetLogs() must equal exactly the last min(total, capacity) ids, newest first; WriteLogs at detail 1..3 must print the same ids in the same order. " +
			"concurrent histories (race binary): 2..8 goroutines write unique ids through a mix of root and derived loggers (some derived mid-stream), GOMAXPROCS in {1,2,4,16}; at quiescence exactly min(total, capacity) distinct written entries, per writer a suffix of its writes in newest-first order; in half of the runs one or two goroutines call GetLogs/WriteLogs concurrently (WriteLogs into a writer that yields the processor inside every Write; printed lines = well-formed ids) and every snapshot must be duplicate-free, " +
			"made of written ids, per-writer newest-first. Race reports are violations. non-trivial = history with at least one derived logger (sequential) / every concurrent run",
		Cases: func(tier string) int { s, cc := c20layout(tier); return s + cc },
		Run:   runC20,
		Floors: map[string]int64{"sequential_histories": 4400, "histories_on_adjustable_level": 2000, "histories_on_a_coarse_clock": 1000, "derivations_with_a_field_that_logs": 300, "derivations_that_failed_inside_the_encoder": 300, "histories_through_InitLogging_and_the_handlers": 15, "handler_pages_compared": 90, "histories_with_the_buffer_beside_a_verbose_core": 1000, "level_changes": 20000, "writes_below_the_level": 100000, "snapshots_compared_in_detail": 20000, "held_snapshots_rechecked": 100000, "read_gap:capacity": 300, "read_gap:2xcapacity": 300, "read_gap:1": 200, "snapshots_compared": 10000, "derived_loggers": 5000, "histories_above_capacity": 1500, "concurrent_runs": 200, "concurrent_runs_above_capacity": 50,
			"concurrent_runs_with_snapshots": 90, "entries_written": 3000000},
		Assumptions: []string{"capacity is read from the exported constant logging.BufferSize", "a case in which writers or GetLogs/WriteLogs do not return for 120 s (normal: milliseconds) is reported as a violation: the buffer no longer returns its entries", "race freedom = no report from the Go race detector on the interleavings that occurred"},
	})
}
