package props

import (
	"encoding/hex"
	"fmt"
	"strings"
	"sync"

	"github.com/0chain/common/core/util"
	"golang.org/x/crypto/sha3"

	"verif/harness/internal/fw"
)

// C19 — Merkle tree paths prove exactly their own leaf.
// One case per leaf count n; inside a case every leaf index is exercised (exhaustive in n and index).

type leafHash string

func (h leafHash) GetHash() string      { return string(h) }
func (h leafHash) GetHashBytes() []byte { b, _ := hex.DecodeString(string(h)); return b }

// ptrLeaf is a leaf whose hash can be edited in place.
type ptrLeaf struct{ h string }

func (p *ptrLeaf) GetHash() string      { return p.h }
func (p *ptrLeaf) GetHashBytes() []byte { b, _ := hex.DecodeString(p.h); return b }

func refHashHex(s string) string {
	h := sha3.New256()
	h.Write([]byte(s))
	return hex.EncodeToString(h.Sum(nil))
}

// refMerkleRoot: level-by-level pairing with last-node duplication (own code, own sha3 call).
func refMerkleRoot(level []string) string {
	if len(level) == 1 {
		return refHashHex(level[0] + level[0])
	}
	for len(level) > 1 {
		var nx []string
		for i := 0; i < len(level); i += 2 {
			if i+1 < len(level) {
				nx = append(nx, refHashHex(level[i]+level[i+1]))
			} else {
				nx = append(nx, refHashHex(level[i]+level[i]))
			}
		}
		level = nx
	}
	return level[0]
}

// refVerify recomputes the root from a leaf and a path independently of util.VerifyMerklePath.
func refVerify(leaf string, nodes []string, idx int, root string) bool {
	h := leaf
	for _, n := range nodes {
		if idx%2 == 1 {
			h = refHashHex(n + h)
		} else {
			h = refHashHex(h + n)
		}
		idx /= 2
	}
	return h == root
}

func c19Sizes(tier string) int {
	if tier == "thorough" {
		return 4096 + 64
	}
	return 1024 + 64
}

// c19N maps a case index to its leaf count: every n up to the tier's bound, then 64 larger sizes of every residue
// modulo 16 (quick: 1025..5057, thorough: 4097..8129) so that whatever a tree does differently above a size threshold
// is met by a few sizes of each shape
func c19N(tier string, idx int) int {
	bound := c19Sizes(tier) - 64
	if idx < bound {
		return idx + 1
	}
	k := idx - bound
	return bound + 1 + k*63
}

func runC19(c *fw.Ctx) {
	n := c19N(c.Tier, c.Idx)
	if n > c19Sizes(c.Tier)-64 {
		c.Count("trees_above_the_exhaustive_bound", 1)
	}
	leaves := make([]util.Hashable, n)
	ls := make([]string, n)
	// leaf hashes of one tree have one fixed width: 64 hex characters for most sizes, every fourth size another width
	// (shorter and longer than the interior hashes)
	width := 64
	if n%4 == 2 {
		width = []int{1, 8, 40, 63, 65, 96, 128, 200}[(n/4)%8]
		if width < 8 && n > 12 { // too few distinct strings of that width
			width = 8
		}
		c.Count("trees_with_other_leaf_width", 1)
	}
	wide := func(seed string) string {
		out := ""
		for k := 0; len(out) < width; k++ {
			out += refHashHex(fmt.Sprintf("%s/%d", seed, k))
		}
		return out[:width]
	}
	for i := 0; i < n; i++ {
		ls[i] = wide(fmt.Sprintf("leaf/%d/%d/%d", c.Seed, n, i))
		if width == 1 {
			ls[i] = string("0123456789abcdef"[i%16])
		}
		leaves[i] = leafHash(ls[i])
	}
	c.Describe(map[string]any{"n": n, "leaf_width": width, "leaf_i": "sha3(\"leaf/<seed>/<n>/<i>/<k>\") hex, concatenated and cut to the width"})
	{
		// the tree is exported right after it was computed, before anything read its root or a path, and the copy is
		// loaded elsewhere
		var early, loaded util.MerkleTree
		early.ComputeTree(leaves)
		exp := append([]string(nil), early.GetTree()...)
		if err := loaded.SetTree(n, exp); err != nil {
			c.Violate("", "n=%d: SetTree(n, GetTree()) of a tree exported right after ComputeTree failed: %v", n, err)
		} else if got, want := loaded.GetRoot(), refMerkleRoot(ls); got != want {
			c.Violate("", "n=%d: a tree exported right after ComputeTree (before any root or path read) loads with root %q, reference %q", n, got, want)
		}
		c.Count("trees_exported_before_any_read", 1)
	}
	var mt util.MerkleTree
	mt.ComputeTree(leaves)
	root := mt.GetRoot()
	if want := refMerkleRoot(ls); root != want {
		c.Violate("", "n=%d: GetRoot()=%s, independent pairwise-duplication reference=%s", n, root, want)
		return
	}
	c.Count("trees", 1)
	// export / import
	tree := append([]string(nil), mt.GetTree()...)
	var mt2 util.MerkleTree
	if err := mt2.SetTree(n, tree); err != nil {
		c.Violate("", "n=%d: SetTree(n, GetTree()) failed: %v", n, err)
		return
	}
	if mt2.GetRoot() != root {
		c.Violate("", "n=%d: root after SetTree differs", n)
	}
	for _, wrong := range []int{n + 1, n - 1, 2*n + 1} {
		if wrong < 1 || wrong == n {
			continue
		}
		var mt3 util.MerkleTree
		// sizes differ for every wrong count except (1 vs 2 leaves both of size... ) compute by reference
		if refTreeSize(wrong) != len(tree) {
			if err := mt3.SetTree(wrong, tree); err == nil {
				c.Violate("", "n=%d: SetTree with leaves=%d accepted a tree of size %d", n, wrong, len(tree))
			}
			c.Count("settree_wrong_size_rejected", 1)
		}
	}
	others := func(i int) []int {
		var o []int
		if n <= 64 {
			for j := 0; j < n; j++ {
				if j != i {
					o = append(o, j)
				}
			}
			return o
		}
		for _, j := range []int{i - 1, i + 1, i ^ 1, n - 1, n - 2, 0} {
			if j >= 0 && j < n && j != i {
				o = append(o, j)
			}
		}
		for k := 0; k < 3; k++ {
			j := c.Rng.Intn(n)
			if j != i {
				o = append(o, j)
			}
		}
		return o
	}
	for i := 0; i < n; i++ {
		p := mt.GetPathByIndex(i)
		if p == nil || p.LeafIndex != i {
			c.Violate("", "n=%d i=%d: GetPathByIndex returned nil or wrong LeafIndex", n, i)
			continue
		}
		nodesBefore := fmt.Sprint(p.Nodes)
		if !util.VerifyMerklePath(ls[i], p, root) {
			c.Violate("", "n=%d i=%d: path by index does not verify (VerifyMerklePath)", n, i)
		}
		// verifying does not consume the caller's path object: same index, same nodes, and it verifies again
		if p.LeafIndex != i || fmt.Sprint(p.Nodes) != nodesBefore {
			c.Violate("", "n=%d i=%d: verification changed the caller's path object (LeafIndex %d, nodes changed=%v)", n, i, p.LeafIndex, fmt.Sprint(p.Nodes) != nodesBefore)
		} else if !util.VerifyMerklePath(ls[i], p, root) || !mt.VerifyPath(leaves[i], p) {
			c.Violate("", "n=%d i=%d: the same path object does not verify a second time", n, i)
		}
		if !refVerify(ls[i], p.Nodes, i, root) {
			c.Violate("", "n=%d i=%d: path by index does not verify under the independent verifier", n, i)
		}
		// a path object that has verified is filled again in place with the path of the next leaf (a caller decoding into
		// one buffer): it now proves that leaf, and no longer this one
		if j := (i + 1) % n; n > 1 && ls[j] != ls[i] {
			if pj := mt.GetPathByIndex(j); pj != nil {
				q := &util.MTPath{Nodes: append([]string(nil), p.Nodes...), LeafIndex: p.LeafIndex}
				if !util.VerifyMerklePath(ls[i], q, root) {
					c.Violate("", "n=%d i=%d: a copy of the path does not verify", n, i)
				}
				q.Nodes = append(q.Nodes[:0], pj.Nodes...)
				q.LeafIndex = pj.LeafIndex
				if util.VerifyMerklePath(ls[i], q, root) {
					c.Violate("", "n=%d i=%d: a path object refilled in place with the path of leaf %d still verifies for leaf %d", n, i, j, i)
				} else if !util.VerifyMerklePath(ls[j], q, root) {
					c.Violate("", "n=%d i=%d: a path object refilled in place with the path of leaf %d does not verify for that leaf", n, i, j)
				}
				c.Count("path_objects_refilled_in_place", 1)
			}
		}
		pl := mt.GetPath(leaves[i])
		if pl == nil || pl.LeafIndex != i || !mt.VerifyPath(leaves[i], pl) {
			c.Violate("", "n=%d i=%d: path by leaf lookup does not verify (VerifyPath)", n, i)
		} else if fmt.Sprint(pl.Nodes) != fmt.Sprint(p.Nodes) {
			c.Violate("", "n=%d i=%d: GetPath(leaf) differs from GetPathByIndex", n, i)
		}
		p2 := mt2.GetPathByIndex(i)
		if p2 == nil || p2.LeafIndex != i || fmt.Sprint(p2.Nodes) != fmt.Sprint(p.Nodes) {
			c.Violate("", "n=%d i=%d: path from the re-imported tree differs", n, i)
		}
		c.Count("paths_verified", 1)
		for k, j := range others(i) {
			if util.VerifyMerklePath(ls[j], p, root) || (k == 0 && mt.VerifyPath(leaves[j], p)) {
				c.Violate("", "n=%d: path of leaf %d verifies for the different leaf %d", n, i, j)
			}
			c.Count("other_leaf_rejections", 1)
		}
		// the same hash in another letter case is a different leaf hash
		if up := strings.ToUpper(ls[i]); up != ls[i] && i%7 == 0 {
			if util.VerifyMerklePath(up, p, root) {
				c.Violate("", "n=%d i=%d: the path verifies for the upper-case spelling of the leaf hash, which is a different string", n, i)
			}
			c.Count("other_leaf_rejections", 1)
		}
		// a one-nibble mutation of the leaf itself
		mut := []byte(ls[i])
		k := c.Rng.Intn(len(mut))
		if mut[k] == '0' {
			mut[k] = '1'
		} else {
			mut[k] = '0'
		}
		if util.VerifyMerklePath(string(mut), p, root) {
			c.Violate("", "n=%d i=%d: path verifies for a one-nibble mutation of the leaf", n, i)
		}
		c.Count("other_leaf_rejections", 1)
		c.Distinct("nontrivial", fw.Hash64("C19", n, i))
	}
	// re-use of tree objects: load / compute a DIFFERENT tree into objects that already served lookups
	lsB := make([]string, n)
	leavesB := make([]util.Hashable, n)
	for i := 0; i < n; i++ {
		lsB[i] = ls[(i+1)%n] // rotated order ...
	}
	lsB[n/2] = wide(fmt.Sprintf("other/%d/%d", c.Seed, n)) // ... and one new leaf
	if width == 1 {
		lsB[n/2] = "x"
	}
	for i := range lsB {
		leavesB[i] = leafHash(lsB[i])
	}
	var fresh util.MerkleTree
	fresh.ComputeTree(leavesB)
	rootB := fresh.GetRoot()
	if want := refMerkleRoot(lsB); rootB != want {
		c.Violate("", "n=%d: root of the second tree differs from the reference", n)
		return
	}
	treeB := append([]string(nil), fresh.GetTree()...)
	if err := mt.SetTree(n, treeB); err != nil { // mt has served by-index and by-leaf lookups of the first tree
		c.Violate("", "n=%d: SetTree of another tree into a used object failed: %v", n, err)
		return
	}
	mt2.ComputeTree(leavesB) // mt2 was loaded with the first tree and has served lookups
	for _, obj := range []struct {
		name string
		t    *util.MerkleTree
	}{{"SetTree into a used tree object", &mt}, {"ComputeTree on a used tree object", &mt2}} {
		if obj.t.GetRoot() != rootB {
			c.Violate("", "n=%d: %s: root is not the new tree's root", n, obj.name)
			continue
		}
		idxs := []int{0, n / 2, n - 1, c.Rng.Intn(n), c.Rng.Intn(n)}
		for _, i := range idxs {
			p := obj.t.GetPath(leavesB[i])
			if p == nil || p.LeafIndex != i || !refVerify(lsB[i], p.Nodes, i, rootB) || !obj.t.VerifyPath(leavesB[i], p) {
				c.Violate("", "n=%d: %s: GetPath(leaf at index %d of the new tree) does not prove that leaf (path %+v)", n, obj.name, i, p)
				break
			}
			pi := obj.t.GetPathByIndex(i)
			if pi == nil || !refVerify(lsB[i], pi.Nodes, i, rootB) {
				c.Violate("", "n=%d: %s: GetPathByIndex(%d) does not prove the new tree's leaf", n, obj.name, i)
				break
			}
			c.Count("reused_object_paths", 1)
		}
		// a leaf of the replaced tree that is not in the new one must not be proven
		gone := ls[(n/2+1)%n]
		if n > 1 || gone != lsB[0] {
			inB := false
			for _, l := range lsB {
				if l == gone {
					inB = true
				}
			}
			if !inB {
				if p := obj.t.GetPath(leafHash(gone)); p != nil && len(p.Nodes) > 0 && obj.t.VerifyPath(leafHash(gone), p) {
					c.Violate("", "n=%d: %s: a leaf of the replaced tree is still proven", n, obj.name)
				}
			}
		}
	}
	// a returned path belongs to the caller: editing or appending to it must not touch the tree
	{
		var z util.MerkleTree
		z.ComputeTree(leaves)
		for _, i := range []int{0, n - 1, c.Rng.Intn(n)} {
			p := z.GetPathByIndex(i)
			if p != nil && len(p.Nodes) > 0 {
				p.Nodes = append(p.Nodes, "appended-by-the-caller")
				p.Nodes[0] = "edited-by-the-caller"
				p.Nodes = append(p.Nodes[:1], "x", "y")
			}
			pl := z.GetPath(leaves[i])
			if pl != nil && len(pl.Nodes) > 0 {
				pl.Nodes[len(pl.Nodes)-1] = "edited-by-the-caller"
				pl.Nodes = append(pl.Nodes, "appended-by-the-caller")
			}
		}
		if z.GetRoot() != root {
			c.Violate("", "n=%d: editing a returned path changed the tree's root", n)
		} else {
			for _, i := range []int{0, n / 2, n - 1} {
				p := z.GetPathByIndex(i)
				if p == nil || !refVerify(ls[i], p.Nodes, i, root) {
					c.Violate("", "n=%d: after the caller edited previously returned paths, path %d no longer verifies", n, i)
					break
				}
				c.Count("paths_after_caller_edits", 1)
			}
		}
	}
	// independent trees computed concurrently give the same roots and paths as sequentially
	if n%16 == 3 {
		const G = 4
		var wg sync.WaitGroup
		bad := make([]string, G)
		for gi := 0; gi < G; gi++ {
			wg.Add(1)
			go func(gi int) {
				defer wg.Done()
				for rep := 0; rep < 6; rep++ {
					lv, lsx := leaves, ls
					wantRoot := root
					if (gi+rep)%2 == 1 {
						lv, lsx, wantRoot = leavesB, lsB, rootB
					}
					var t util.MerkleTree
					t.ComputeTree(lv)
					if t.GetRoot() != wantRoot {
						bad[gi] = "root of a tree computed concurrently with other, independent trees differs from the sequential root"
						return
					}
					i := (gi*7 + rep) % n
					if p := t.GetPathByIndex(i); p == nil || !util.VerifyMerklePath(lsx[i], p, wantRoot) {
						bad[gi] = "path of a tree computed concurrently with other, independent trees does not verify"
						return
					}
				}
			}(gi)
		}
		wg.Wait()
		for _, b := range bad {
			if b != "" {
				c.Violate("", "n=%d: %s", n, b)
				break
			}
		}
		c.Count("concurrent_independent_tree_groups", 1)
	}
	// export without copying, then re-use the exporter: the loaded tree must not change (no shared backing array);
	// and a rejected SetTree must leave a populated object intact
	{
		var x, y util.MerkleTree
		x.ComputeTree(leaves)
		if err := y.SetTree(n, x.GetTree()); err != nil {
			c.Violate("", "n=%d: SetTree(n, GetTree()) failed: %v", n, err)
			return
		}
		x.ComputeTree(leavesB) // same size, different leaves
		if n > 1 {
			x.ComputeTree(leavesB[:n-1]) // and a smaller tree
		}
		for _, wrong := range []int{n + 1, 2*n + 1, 4*n + 3, 1} {
			if refTreeSize(wrong) == refTreeSize(n) {
				continue
			}
			if err := y.SetTree(wrong, make([]string, refTreeSize(n))); err == nil {
				c.Violate("", "n=%d: SetTree(%d, tree of the wrong size) was accepted", n, wrong)
			}
		}
		if y.GetRoot() != root {
			c.Violate("", "n=%d: a tree loaded with SetTree changed its root after the exporting object computed another tree / after a rejected SetTree", n)
		} else {
			for _, i := range []int{0, n / 2, n - 1, c.Rng.Intn(n)} {
				p := y.GetPathByIndex(i)
				if p == nil || !refVerify(ls[i], p.Nodes, i, root) || !util.VerifyMerklePath(ls[i], p, root) {
					c.Violate("", "n=%d: path %d of a loaded tree no longer verifies after the exporter was re-used / after a rejected SetTree (path length %d)", n, i, len(p.Nodes))
					break
				}
				c.Count("loaded_tree_paths_after_exporter_reuse", 1)
			}
		}
	}
	// one long-lived object that has served paths is given trees of other sizes (smaller, larger, the same depth and
	// another depth) through ComputeTree and SetTree; every time its paths by index and by leaf must prove the new tree;
	// by-leaf lookups also walk the leaves downwards (the leaf before the previous hit)
	if n >= 2 {
		var z util.MerkleTree
		z.ComputeTree(leaves)
		_ = z.GetPathByIndex(n - 1)
		_ = z.GetPath(leaves[n/2])
		sizes := []int{n - 1, n, (n + 1) / 2, 1}
		if n > 3 {
			sizes = append(sizes, n-2, n-1-c.Rng.Intn(n/2))
		}
		for si, k := range sizes {
			if k < 1 {
				continue
			}
			sub, subS := leavesB[:k], lsB[:k]
			var fresh2 util.MerkleTree
			fresh2.ComputeTree(sub)
			if si%2 == 0 {
				z.ComputeTree(sub)
			} else if err := z.SetTree(k, append([]string(nil), fresh2.GetTree()...)); err != nil {
				c.Violate("", "n=%d: SetTree(%d, ...) into a used object failed: %v", n, k, err)
				break
			}
			wantRoot := refMerkleRoot(subS)
			if z.GetRoot() != wantRoot {
				c.Violate("", "n=%d: a used object given a tree of %d leaves reports root %s, reference %s", n, k, z.GetRoot(), wantRoot)
				break
			}
			idxs := []int{k - 1, 0, k / 2}
			if k > 2 {
				idxs = append(idxs, k-2, c.Rng.Intn(k))
			}
			bad := false
			for _, i := range idxs { // includes a downward step k-1 -> ... -> k-2
				p := z.GetPathByIndex(i)
				if p == nil || p.LeafIndex != i || !refVerify(subS[i], p.Nodes, i, wantRoot) {
					c.Violate("", "n=%d: a used object given a tree of %d leaves: GetPathByIndex(%d) does not prove that leaf", n, k, i)
					bad = true
					break
				}
				pl := z.GetPath(sub[i])
				if pl == nil || pl.LeafIndex != i || !refVerify(subS[i], pl.Nodes, i, wantRoot) {
					c.Violate("", "n=%d: a used object given a tree of %d leaves: GetPath(leaf %d) does not prove that leaf (lookups so far went %v)", n, k, i, idxs)
					bad = true
					break
				}
				c.Count("resized_object_paths", 2)
			}
			if bad {
				break
			}
		}
		// a downward walk over the leaves of the original tree
		var dw util.MerkleTree
		dw.ComputeTree(leaves)
		for i := n - 1; i >= 0 && i >= n-40; i-- {
			if pl := dw.GetPath(leaves[i]); pl == nil || pl.LeafIndex != i {
				c.Violate("", "n=%d: GetPath(leaf %d) during a downward walk returned %v", n, i, pl)
				break
			}
			c.Count("downward_lookups", 1)
		}
	}
	// a list in which one leaf hash occurs twice: the path of each position proves its own leaf (the later occurrence too)
	if n%8 == 5 && n >= 3 && n <= 600 {
		dl := append([]string(nil), ls...)
		di, dj := c.Rng.Intn(n-1), 0
		dj = di + 1 + c.Rng.Intn(n-1-di)
		dl[dj] = dl[di]
		dleaves := make([]util.Hashable, n)
		for i := range dl {
			dleaves[i] = leafHash(dl[i])
		}
		var dt util.MerkleTree
		dt.ComputeTree(dleaves)
		droot := refMerkleRoot(dl)
		if dt.GetRoot() != droot {
			c.Violate("", "n=%d: tree with a repeated leaf hash has root %s, reference %s", n, dt.GetRoot(), droot)
		}
		for _, i := range []int{di, dj, 0, n - 1} {
			p := dt.GetPathByIndex(i)
			if p == nil || !refVerify(dl[i], p.Nodes, i, droot) || !util.VerifyMerklePath(dl[i], p, droot) || !dt.VerifyPath(dleaves[i], p) {
				c.Violate("", "n=%d: leaves %d and %d carry the same hash; the path issued for position %d does not verify (VerifyMerklePath / VerifyPath)", n, di, dj, i)
				break
			}
		}
		c.Count("trees_with_a_repeated_leaf_hash", 1)
	}
	// leaves that are pointers to mutable objects: the same objects, one of them edited in place, are computed again into the
	// same tree object - the tree must follow the leaves' current hashes (not the identity of the objects)
	if n%8 == 3 && n <= 600 {
		pl := make([]util.Hashable, n)
		cur := make([]string, n)
		for i := range pl {
			cur[i] = ls[i]
			pl[i] = &ptrLeaf{h: ls[i]}
		}
		var pt util.MerkleTree
		pt.ComputeTree(pl)
		if pt.GetRoot() != refMerkleRoot(cur) {
			c.Violate("", "n=%d: tree of pointer leaves has root %s, reference %s", n, pt.GetRoot(), refMerkleRoot(cur))
		}
		ei := c.Rng.Intn(n)
		pl[ei].(*ptrLeaf).h = lsB[n/2]
		cur[ei] = lsB[n/2]
		pt.ComputeTree(pl)
		wantRoot := refMerkleRoot(cur)
		if pt.GetRoot() != wantRoot {
			c.Violate("", "n=%d: leaf object %d was edited in place and the same objects computed again into the same tree: root %s, reference %s", n, ei, pt.GetRoot(), wantRoot)
		} else if p := pt.GetPathByIndex(ei); p == nil || !refVerify(cur[ei], p.Nodes, ei, wantRoot) {
			c.Violate("", "n=%d: path of the edited leaf object %d does not prove its current hash", n, ei)
		}
		c.Count("trees_of_pointer_leaves_recomputed_after_an_edit", 1)
	}
	if n == 1 || n == 2 || n == 3 || n == 1000 {
		c.Sample(map[string]any{"n": n, "root": root, "path_of_last_leaf": mt.GetPathByIndex(n - 1)})
	}
}

func refTreeSize(leaves int) int {
	if leaves == 1 {
		return 2
	}
	t := 0
	for l := leaves; l > 1; l = (l + 1) / 2 {
		t += l
	}
	return t + 1
}

func init() {
	fw.Register(&fw.Prop{
		ID:           "C19",
		EvalCounters: []string{"paths_verified", "other_leaf_rejections"},
		Level:        "exploration",
		Rule: "one case per leaf count n=1..N (N=1024 quick, 4096 thorough) plus 64 larger sizes N+1+63k (every residue modulo 16) with distinct leaf hashes derived from (seed,n,i), all of one width per tree (64 hex characters; for every fourth n one of 1, 8, 40, 63, 65, 96, 128, 200 characters); every leaf index i is exercised: " +
			"path by index and by leaf lookup must verify against GetRoot() (library verifier and an independent one), root must equal an independent pairwise/duplicate-last reference, " +
			"the same path must not verify for other leaves (all others for n<=64; neighbours, sibling, last leaves, 3 random and a one-nibble mutation above), export/import must reproduce root and paths; a different tree (rotated leaves plus one new leaf) is then loaded with SetTree / re-computed with ComputeTree into the objects that already served lookups and its by-leaf and by-index paths must prove the new leaves only; returned paths are edited/appended to by the harness and the tree re-verified; for n = 3 mod 8 the leaves are pointers to objects, one of which is edited in place before the same objects are computed again into the same tree; one long-lived object that served lookups is then given trees of other sizes (smaller, same depth, other depth) through ComputeTree and SetTree and must prove each of them by index and by leaf; by-leaf lookups also walk the leaves downwards; every 16th size also computes independent trees in 4 concurrent goroutines and compares with the sequential roots; a tree loaded from GetTree() without copying must be unaffected by the exporter computing other trees, and by SetTree calls on itself that are rejected for a wrong size. " +
			"distinct non-trivial = distinct (n,i) pairs whose path was produced and verified",
		Cases:      c19Sizes,
		Run:        runC19,
		Exhaustive: func(string) bool { return true },
		Floors:     map[string]int64{"trees": 1000, "trees_exported_before_any_read": 1000, "path_objects_refilled_in_place": 400000, "trees_with_a_repeated_leaf_hash": 60, "trees_of_pointer_leaves_recomputed_after_an_edit": 60, "resized_object_paths": 20000, "downward_lookups": 20000, "trees_above_the_exhaustive_bound": 60, "trees_with_other_leaf_width": 250, "paths_verified": 500000, "other_leaf_rejections": 3000000, "settree_wrong_size_rejected": 1000, "reused_object_paths": 5000, "loaded_tree_paths_after_exporter_reuse": 3000, "paths_after_caller_edits": 3000, "concurrent_independent_tree_groups": 60},
		Assumptions: []string{
			"leaf hashes of one tree are distinct strings of one fixed width (64 hex in most trees, 1..200 characters in a quarter of them): the tree concatenates strings, so leaves of different widths within one tree are outside the property's domain",
			"exhaustive over n<=N and all indices, not over all leaf values",
		},
	})
}
