package props

import (
	"bytes"
	"fmt"
	"strings"

	"github.com/0chain/common/core/util/wmpt"

	"verif/harness/internal/fw"
	wl "verif/harness/internal/wmlab"
)

// C12 — a partial trie built from a path export evolves like the full trie.

var c12sizes = []int{0, 1, 2, 5, 9, 10, 11, 12, 20, 40}

func runC12(c *fw.Ctx) {
	r := c.Rng
	g := &wl.Gen{R: r}
	if c.Idx == 0 {
		c12huge(c)
		return
	}
	shape := c.Idx % 4 // 0 empty, 1 single entry, 2 shared-prefix (short) root, 3 branch root
	nreq := c12sizes[(c.Idx/4)%len(c12sizes)]
	collapsed := (c.Idx/40)%2 == 1
	st := wl.NewMem()
	var src *wmpt.WeightedMerkleTrie
	if collapsed {
		src = wmpt.New(nil, st)
	} else {
		src = wmpt.New(nil, nil)
	}
	m := wl.Model{}
	n := 0
	switch shape {
	case 1:
		n = 1
	case 2, 3:
		n = 2 + r.Intn(30)
	}
	var pfx []byte
	if shape == 2 {
		pfx = make([]byte, 1+r.Intn(6))
		r.Read(pfx)
	}
	mkKey := func() []byte {
		k := g.Key(m.Keys())
		if shape == 2 {
			copy(k, pfx)
		}
		return k
	}
	pooled := r.Intn(5) == 0
	var pool []wl.Entry
	for i := 0; i < n; i++ {
		k := mkKey()
		if shape == 3 && i < 2 { // force a branch at the root
			k[0] = byte(i*0x80) | k[0]&0x0f
		}
		v, w := g.Value()
		if pooled && len(pool) > 0 && r.Intn(2) == 0 { // several entries with identical value and weight
			e := pool[r.Intn(len(pool))]
			v, w = e.Val, e.W
		} else if pooled {
			pool = append(pool, wl.Entry{Val: v, W: w})
		}
		if err := wl.Upd(src, k, v, w); err != nil {
			c.Violate("", "Update failed: %v", err)
			return
		}
		m[string(k)] = wl.Entry{Val: v, W: w}
	}
	if pooled {
		c.Count("sources_with_equal_entries", 1)
	}
	lvl := -1
	if collapsed {
		lvl = r.Intn(6)
		b, err := src.Commit(lvl)
		if err != nil {
			c.Violate("", "Commit failed: %v", err)
			return
		}
		_ = b.Commit(true)
		wr, ww := m.Ref()
		if r.Intn(3) == 0 && ww > 0 { // the source is a collapsed view of the committed trie (CopyRoot) instead of a bare hash node
			vl := r.Intn(6)
			live := src
			src = wmpt.New(src.CopyRoot(vl), st)
			lvl = 100 + vl
			c.Count("imports_from_copyroot_view", 1)
			if r.Intn(2) == 0 { // the trie the view was taken from moves on (in memory): the view must not notice
				ks := m.Keys()
				for i := 0; i < 1+r.Intn(3); i++ {
					k := ks[r.Intn(len(ks))]
					v, w := g.Value()
					if r.Intn(2) == 0 {
						v, w = g.SameWeightValue(m[k].W), m[k].W
					}
					c.Tracef("live trie behind the view: upd %s=%s", wl.KeyStr([]byte(k)), v)
					_ = wl.Upd(live, []byte(k), v, w)
				}
				c.Count("views_whose_origin_moved_on", 1)
			}
		} else {
			src = wl.Reopen(wr, ww, st)
		}
	} else {
		src.Root() // finalise hashes, as the package's own tests do before GetPath
	}
	// requested keys: present and absent
	keys := m.Keys()
	var req [][]byte
	for i := 0; i < nreq; i++ {
		if len(keys) == 0 || r.Intn(4) == 0 {
			req = append(req, mkKey())
		} else {
			req = append(req, []byte(keys[r.Intn(len(keys))]))
		}
	}
	desc := fmt.Sprintf("root shape=%s, %d keys, %s, %d requested keys", []string{"empty", "single entry", "shared-prefix short node", "branch"}[shape], len(m),
		map[bool]string{false: "in memory", true: fmt.Sprintf("committed at level %d and reopened", lvl)}[collapsed], nreq)
	c.Tracef("%s", desc)
	fail := func(format string, a ...any) {
		c.Count(fmt.Sprintf("failures:shape=%d,requested=%d,collapsed=%v", shape, nreq, collapsed), 1)
		c.Violate("", "%s [%s]\ntrace: %s", fmt.Sprintf(format, a...), desc, strings.Join(c.Trace(), "; "))
	}
	data, err := src.GetPath(req)
	if err != nil {
		fail("GetPath failed: %v", err)
		return
	}
	part := wmpt.New(nil, nil)
	if err := part.Deserialize(data); err != nil {
		fail("Deserialize of the export failed: %v", err)
		return
	}
	compare := func(when string) bool {
		wr, ww := m.Ref()
		sr, pr := src.Root(), part.Root()
		if len(m) == 0 {
			// an empty trie exports nothing; both must report zero weight
			if src.Weight() != 0 || part.Weight() != 0 {
				fail("%s: empty content but weights %d / %d", when, src.Weight(), part.Weight())
				return false
			}
			return true
		}
		if !bytes.Equal(sr, wr) || src.Weight() != ww {
			fail("%s: source trie root %x weight %d, reference %x / %d", when, sr, src.Weight(), wr, ww)
			return false
		}
		if !bytes.Equal(pr, sr) || part.Weight() != src.Weight() {
			fail("%s: partial trie root %x weight %d differs from the source trie %x / %d", when, pr, part.Weight(), sr, src.Weight())
			return false
		}
		return true
	}
	if !compare("after import") {
		return
	}
	// the partial trie is a trie: asked for the same keys it may export them again (if it does, the second-generation
	// partial trie has the same root and weight); asked for a key it does not cover it may fail, but it must return
	if len(m) > 0 {
		if re, rerr := part.GetPath(req); rerr == nil {
			part2 := wmpt.New(nil, nil)
			if derr := part2.Deserialize(re); derr != nil {
				fail("a re-export of the requested keys from the partial trie does not deserialize: %v", derr)
				return
			}
			if !bytes.Equal(part2.Root(), src.Root()) || part2.Weight() != src.Weight() {
				fail("a second-generation partial trie has root %x weight %d, the source %x / %d", part2.Root(), part2.Weight(), src.Root(), src.Weight())
				return
			}
			c.Count("re_exports_from_the_partial_trie", 1)
		}
		_, _ = part.GetPath([][]byte{mkKey()})
		_, _ = part.GetPath(append([][]byte{mkKey(), mkKey()}, req...))
	}
	c.Count("imports", 1)
	c.Count(fmt.Sprintf("shape:%d", shape), 1)
	if nreq > 10 {
		c.Count("imports_above_parallel_threshold", 1)
	}
	if collapsed {
		c.Count("imports_from_collapsed_source", 1)
	}
	// mirrored follow-up operations restricted to the requested keys
	nops := 0
	if len(req) > 0 {
		nops = 1 + r.Intn(10)
	}
	for i := 0; i < nops; i++ {
		k := req[r.Intn(len(req))]
		var e1, e2 error
		if collapsed && r.Intn(4) == 0 {
			// the source commits and collapses again between two mirrored operations
			if b2, cerr := src.Commit(r.Intn(6)); cerr == nil {
				_ = b2.Commit(true)
				c.Tracef("source: commit")
				c.Count("source_commits_between_mirrored_operations", 1)
			}
		}
		if r.Intn(3) != 0 {
			v, w := g.Value()
			if e, live := m[string(k)]; live && r.Intn(3) == 0 {
				v, w = g.SameWeightValue(e.W), e.W // other bytes, the same weight
				c.Count("mirrored_same_weight_rewrites", 1)
			}
			c.Tracef("upd %s=%s", wl.KeyStr(k), v)
			e1 = wl.Upd(src, k, v, w)
			e2 = wl.Upd(part, k, v, w)
			if e1 == nil {
				m[string(k)] = wl.Entry{Val: v, W: w}
			}
		} else {
			c.Tracef("del %s", wl.KeyStr(k))
			e1 = wl.Upd(src, k, nil, 0)
			e2 = wl.Upd(part, k, nil, 0)
			if e1 == nil {
				delete(m, string(k))
			}
		}
		if (e1 == nil) != (e2 == nil) {
			fail("mirrored operation: source trie returned %v, partial trie returned %v", e1, e2)
			return
		}
		if _, present := m[string(k)]; e1 != nil && present {
			fail("source trie failed an update of a live key: %v", e1)
			return
		}
		if !compare(fmt.Sprintf("after mirrored operation %d", i+1)) {
			return
		}
		c.Count("mirrored_ops", 1)
	}
	c.NonTrivial(fw.Hash64(desc, strings.Join(c.Trace(), ";")))
	if c.Idx < 4 {
		c.Sample(map[string]any{"case": desc, "export_bytes": len(data), "ops": c.Trace()})
	}
}

// c12huge: one export with far more than 2^17 nodes (all keys of a 66 000-entry trie requested): import, roots, one mirrored update
func c12huge(c *fw.Ctx) {
	r := c.Rng
	src := wmpt.New(nil, nil)
	m := wl.Model{}
	var keys [][]byte
	for i := 0; i < 66000; i++ {
		k := make([]byte, 32)
		r.Read(k)
		v := []byte(fmt.Sprintf("h%d", i))
		w := wl.WeightOf(v)
		if err := wl.Upd(src, k, v, w); err != nil {
			c.Violate("", "Update failed: %v", err)
			return
		}
		m[string(k)] = wl.Entry{Val: v, W: w}
		keys = append(keys, k)
	}
	src.Root()
	data, err := src.GetPath(keys)
	if err != nil {
		c.Violate("", "GetPath of %d keys failed: %v", len(keys), err)
		return
	}
	part := wmpt.New(nil, nil)
	if err := part.Deserialize(data); err != nil {
		c.Violate("", "Deserialize of an export of %d keys (%d bytes) failed: %v", len(keys), len(data), err)
		return
	}
	wr, ww := m.Ref()
	if !bytes.Equal(part.Root(), wr) || part.Weight() != ww || !bytes.Equal(src.Root(), wr) {
		c.Violate("", "huge export: partial root %x / weight %d, source root %x, reference %x / %d", part.Root(), part.Weight(), src.Root(), wr, ww)
		return
	}
	k := keys[r.Intn(len(keys))]
	e1, e2 := wl.Upd(src, k, []byte("changed"), wl.WeightOf([]byte("changed"))), wl.Upd(part, k, []byte("changed"), wl.WeightOf([]byte("changed")))
	if e1 != nil || e2 != nil || !bytes.Equal(src.Root(), part.Root()) {
		c.Violate("", "huge export: mirrored update diverges (%v / %v)", e1, e2)
		return
	}
	c.Count("huge_exports", 1)
	c.Max("huge_export_bytes", int64(len(data)))
}

func init() {
	fw.Register(&fw.Prop{
		ID:    "C12",
		Level: "exploration",
		Rule: "cases enumerate root shape (empty, single entry, shared-prefix short root, branch root) x requested-key-set size in {0,1,2,5,9,10,11,12,20,40} (both sides of the >10 parallel collection path) x source (in memory with hashes finalised, or committed at a collapse level 0..5 and reopened from the hash or viewed through CopyRoot(level), in half of those cases with the trie the view was taken from updated afterwards); case 0 is one export of all keys of a 66 000-entry trie (far more than 2^17 nodes); " +
			"requested keys mix present and absent ones; a fifth of the sources hold several entries with identical value and weight; GetPath export -> Deserialize into a storage-less trie; then 1..10 mirrored updates/deletes restricted to requested keys on both tries. the partial trie is asked to export the requested keys again (a second-generation partial trie must agree) and keys it does not cover (it must return); Oracle: Deserialize succeeds; Root()/Weight() of the partial trie equal the source's and the independent reference after import and after each operation; " +
			"error/no-error outcomes agree. distinct non-trivial = distinct (case description, trace)",
		Cases: func(tier string) int {
			if tier == "thorough" {
				return 480000
			}
			return 19200
		},
		Run:    runC12,
		Floors: map[string]int64{"imports": 18000, "mirrored_ops": 50000, "imports_above_parallel_threshold": 5000, "imports_from_collapsed_source": 5000, "shape:0": 1000, "shape:1": 1000, "shape:2": 1000, "shape:3": 1000, "imports_from_copyroot_view": 2000, "views_whose_origin_moved_on": 800, "re_exports_from_the_partial_trie": 5000, "sources_with_equal_entries": 2500, "mirrored_same_weight_rewrites": 5000, "source_commits_between_mirrored_operations": 5000, "huge_exports": 1},
		Race:   true,
		Assumptions: []string{
			"in-memory sources have their hashes finalised through Root() before GetPath (the usage the package's own tests show)",
			"follow-up operations touch requested keys only (the property's domain)",
		},
	})
}
