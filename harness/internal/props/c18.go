package props

import (
	"sync"
	"fmt"
	"math"
	"math/big"
	"strconv"
	"strings"

	"github.com/0chain/common/core/currency"

	"verif/harness/internal/fw"
)

// C18 — currency arithmetic is exact or fails loudly. Oracle: math/big.

var (
	bigMaxU64 = new(big.Int).SetUint64(math.MaxUint64)
	bigMaxI64 = big.NewInt(math.MaxInt64)
	two64f    = math.Ldexp(1, 64)
)

func c18Boundary() []uint64 {
	set := map[uint64]bool{}
	add := func(v uint64) { set[v] = true }
	for _, v := range []uint64{0, 1, 2, 3, 4, 5, 7, 10} {
		add(v)
	}
	for k := uint(1); k < 64; k++ {
		p := uint64(1) << k
		add(p - 1)
		add(p)
		add(p + 1)
	}
	for d := uint64(0); d < 4; d++ {
		add(math.MaxUint64 - d)
		add(math.MaxInt64 - d)
		add(math.MaxInt64 + 1 + d)
		add(4294967296 - 2 + d) // around sqrt(2^64)
		add(3037000499 - 1 + d) // around sqrt(2^63)
		add(math.MaxUint64/3 - 1 + d)
		add(math.MaxUint64/2 - 1 + d)
	}
	p := uint64(1)
	for k := 0; k < 19; k++ {
		p *= 10
		add(p - 1)
		add(p)
		add(p + 1)
	}
	out := make([]uint64, 0, len(set))
	for v := range set {
		out = append(out, v)
	}
	// deterministic order
	for i := 1; i < len(out); i++ {
		for j := i; j > 0 && out[j] < out[j-1]; j-- {
			out[j], out[j-1] = out[j-1], out[j]
		}
	}
	return out
}

var c18B = c18Boundary()

func c18Floats() []float64 {
	f := []float64{0, math.Copysign(0, -1), math.SmallestNonzeroFloat64, 1e-300, 1e-10, 0.1, 0.25, 0.5, 1 - 1.0/(1<<53), 1, 1 + 1.0/(1<<52), 1.5, 2, 3, 10,
		1e10, 1 << 53, 1<<53 + 2, 1<<53 - 1, 1 << 62, 1 << 63, math.Nextafter(1<<63, 0), math.Nextafter(two64f, 0), two64f, math.Nextafter(two64f, math.Inf(1)),
		1e19, 1.8446744073709552e19, 1e20, 1e300, math.MaxFloat64, math.Inf(1), math.Inf(-1), math.NaN(), -1, -0.5, -1e-300, -1e19, -math.MaxFloat64,
		0.3, 0.7, 1.0 / 3, 2.5, 1e-5, 123456.789, 9.223372036854775e8, 9.223372036854776e8, 922337203.6854775807, 922337203.6854776}
	return f
}

var c18F = c18Floats()

type c18mon struct {
	c *fw.Ctx
}

func bu(v uint64) *big.Int { return new(big.Int).SetUint64(v) }

func (m *c18mon) checkU(fn string, args string, got currency.Coin, err error, exact *big.Int) {
	m.c.Count("eval_"+fn, 1)
	representable := exact.Sign() >= 0 && exact.Cmp(bigMaxU64) <= 0
	if representable {
		if err != nil {
			m.c.Violate("", "%s(%s): exact result %s is representable but an error was returned: %v", fn, args, exact, err)
		} else if bu(uint64(got)).Cmp(exact) != 0 {
			m.c.Violate("", "%s(%s) = %d, exact result is %s", fn, args, uint64(got), exact)
		}
	} else if err == nil {
		m.c.Violate("", "%s(%s) = %d with nil error, exact result %s is not representable (silent wrap)", fn, args, uint64(got), exact)
	} else {
		m.c.Count("loud_failures", 1)
	}
}

func (m *c18mon) guard(fn, args string, f func()) {
	defer func() {
		if r := recover(); r != nil {
			m.c.Violate("", "%s(%s) panicked: %v", fn, args, r)
		}
	}()
	f()
}

func (m *c18mon) pairU(a, b uint64) {
	A, B := bu(a), bu(b)
	args := fmt.Sprintf("%d,%d", a, b)
	m.guard("AddCoin", args, func() {
		r, err := currency.AddCoin(currency.Coin(a), currency.Coin(b))
		m.checkU("AddCoin", args, r, err, new(big.Int).Add(A, B))
	})
	m.guard("MinusCoin", args, func() {
		r, err := currency.MinusCoin(currency.Coin(a), currency.Coin(b))
		m.checkU("MinusCoin", args, r, err, new(big.Int).Sub(A, B))
	})
	m.guard("MultCoin", args, func() {
		r, err := currency.MultCoin(currency.Coin(a), currency.Coin(b))
		m.checkU("MultCoin", args, r, err, new(big.Int).Mul(A, B))
	})
	m.guard("Min", args, func() {
		m.c.Count("eval_Min", 1)
		r := currency.Min(currency.Coin(a), currency.Coin(b))
		w := a
		if b < a {
			w = b
		}
		if uint64(r) != w {
			m.c.Violate("", "Min(%s) = %d", args, uint64(r))
		}
	})
	// signed second operand: reinterpret b
	s := int64(b)
	S := big.NewInt(s)
	sargs := fmt.Sprintf("%d,%d", a, s)
	m.guard("AddInt64", sargs, func() {
		r, err := currency.AddInt64(currency.Coin(a), s)
		if s < 0 && err != nil {
			m.c.Count("eval_AddInt64", 1)
			m.c.Count("loud_failures", 1)
			return // a negative addend is refused loudly; the exact result is also accepted below
		}
		m.checkU("AddInt64", sargs, r, err, new(big.Int).Add(A, S))
	})
	m.guard("MinusInt64", sargs, func() {
		r, err := currency.MinusInt64(currency.Coin(a), s)
		if s < 0 && err != nil {
			m.c.Count("eval_MinusInt64", 1)
			m.c.Count("loud_failures", 1)
			return
		}
		m.checkU("MinusInt64", sargs, r, err, new(big.Int).Sub(A, S))
	})
	m.guard("DistributeCoin", sargs, func() {
		m.c.Count("eval_DistributeCoin", 1)
		q, rem, err := currency.DistributeCoin(currency.Coin(a), s)
		if s <= 0 {
			if err == nil && !(s < 0 && a == 0 && q == 0 && rem == 0) {
				m.c.Violate("", "DistributeCoin(%s) = (%d,%d) with nil error for a non-positive divisor", sargs, uint64(q), uint64(rem))
			} else {
				m.c.Count("loud_failures", 1)
			}
			return
		}
		wq, wr := new(big.Int).QuoRem(A, S, new(big.Int))
		if err != nil {
			m.c.Violate("", "DistributeCoin(%s): error %v although the exact result (%s,%s) is representable", sargs, err, wq, wr)
		} else if bu(uint64(q)).Cmp(wq) != 0 || bu(uint64(rem)).Cmp(wr) != 0 {
			m.c.Violate("", "DistributeCoin(%s) = (%d,%d), exact (%s,%s)", sargs, uint64(q), uint64(rem), wq, wr)
		}
	})
}

func (m *c18mon) unary(a uint64) {
	args := fmt.Sprint(a)
	m.guard("Int64", args, func() {
		m.c.Count("eval_Int64", 1)
		r, err := currency.Coin(a).Int64()
		if a <= math.MaxInt64 {
			if err != nil || uint64(r) != a {
				m.c.Violate("", "Coin(%d).Int64() = %d, %v", a, r, err)
			}
		} else if err == nil {
			m.c.Violate("", "Coin(%d).Int64() = %d with nil error (not representable)", a, r)
		} else {
			m.c.Count("loud_failures", 1)
		}
	})
	s := int64(a)
	m.guard("Int64ToCoin", fmt.Sprint(s), func() {
		m.c.Count("eval_Int64ToCoin", 1)
		r, err := currency.Int64ToCoin(s)
		if s >= 0 {
			if err != nil || uint64(r) != uint64(s) {
				m.c.Violate("", "Int64ToCoin(%d) = %d, %v", s, uint64(r), err)
			}
		} else if err == nil {
			m.c.Violate("", "Int64ToCoin(%d) = %d with nil error", s, uint64(r))
		} else {
			m.c.Count("loud_failures", 1)
		}
	})
	m.guard("Float64", args, func() {
		m.c.Count("eval_Float64", 1)
		r, err := currency.Coin(a).Float64()
		if err == nil && r != float64(a) {
			m.c.Violate("", "Coin(%d).Float64() = %v, IEEE nearest is %v", a, r, float64(a))
		}
	})
}

// floatToCoinRef: (value, mustError)
func floatToCoinRef(f float64) (uint64, bool) {
	if math.IsNaN(f) || math.IsInf(f, 0) || f < 0 || f >= two64f {
		return 0, true
	}
	bf := new(big.Float).SetFloat64(f)
	bi, _ := bf.Int(nil) // truncates toward zero
	return bi.Uint64(), false
}

func (m *c18mon) floatToCoin(f float64) {
	args := strconv.FormatFloat(f, 'g', -1, 64)
	m.guard("Float64ToCoin", args, func() {
		m.c.Count("eval_Float64ToCoin", 1)
		r, err := currency.Float64ToCoin(f)
		w, mustErr := floatToCoinRef(f)
		if mustErr {
			if err == nil {
				m.c.Violate("", "Float64ToCoin(%s) = %d with nil error (argument negative, NaN, infinite or >= 2^64)", args, uint64(r))
			} else {
				m.c.Count("loud_failures", 1)
			}
			return
		}
		if err != nil {
			if f == 0 && math.Signbit(f) {
				return // -0: either answer is legitimate
			}
			m.c.Violate("", "Float64ToCoin(%s): error %v, expected %d", args, err, w)
		} else if uint64(r) != w {
			m.c.Violate("", "Float64ToCoin(%s) = %d, expected truncation %d", args, uint64(r), w)
		}
	})
}

func (m *c18mon) multFloat(cn uint64, a float64) {
	args := fmt.Sprintf("%d,%s", cn, strconv.FormatFloat(a, 'g', -1, 64))
	m.guard("MultFloat64", args, func() {
		m.c.Count("eval_MultFloat64", 1)
		r, err := currency.MultFloat64(currency.Coin(cn), a)
		prod := float64(cn) * a
		w, mustErr := floatToCoinRef(prod)
		if math.IsNaN(a) || a < 0 {
			mustErr = true
		}
		if mustErr {
			if err == nil {
				if a == 0 && math.Signbit(a) { // -0 factor: product is -0
					return
				}
				m.c.Violate("", "MultFloat64(%s) = %d with nil error (IEEE product %v: argument or result negative, NaN, infinite or >= 2^64)", args, uint64(r), prod)
			} else {
				m.c.Count("loud_failures", 1)
			}
			return
		}
		if err != nil {
			if prod == 0 && math.Signbit(prod) {
				return
			}
			m.c.Violate("", "MultFloat64(%s): error %v, expected %d", args, err, w)
		} else if uint64(r) != w {
			m.c.Violate("", "MultFloat64(%s) = %d, expected truncation of %v = %d", args, uint64(r), prod, w)
		}
	})
}

var ten10 = new(big.Int).Exp(big.NewInt(10), big.NewInt(10), nil)

func (m *c18mon) parseZCN(f float64) {
	args := strconv.FormatFloat(f, 'g', -1, 64)
	m.guard("ParseZCN", args, func() {
		m.c.Count("eval_ParseZCN", 1)
		r, err := currency.ParseZCN(f)
		if math.IsNaN(f) || math.IsInf(f, 0) {
			if err == nil {
				m.c.Violate("", "ParseZCN(%s) = %d with nil error", args, uint64(r))
			} else {
				m.c.Count("loud_failures", 1)
			}
			return
		}
		// shortest round-trip decimal as an exact rational
		d, ok := new(big.Rat).SetString(strconv.FormatFloat(f, 'e', -1, 64))
		if !ok {
			panic("harness: cannot parse shortest decimal")
		}
		x := new(big.Rat).Mul(d, new(big.Rat).SetInt(ten10))
		okWant := x.Sign() >= 0 && x.IsInt() && x.Num().Cmp(bigMaxI64) <= 0
		if okWant {
			if err != nil {
				m.c.Violate("", "ParseZCN(%s): error %v, but amount*10^10 = %s is a non-negative integer in range", args, err, x.Num())
			} else if bu(uint64(r)).Cmp(x.Num()) != 0 {
				m.c.Violate("", "ParseZCN(%s) = %d, expected %s", args, uint64(r), x.Num())
			} else {
				m.c.Count("parse_ok", 1)
			}
			return
		}
		if err == nil {
			// (MaxInt64, MaxUint64] is tolerated if exact
			if x.Sign() >= 0 && x.IsInt() && x.Num().Cmp(bigMaxU64) <= 0 && bu(uint64(r)).Cmp(x.Num()) == 0 {
				return
			}
			m.c.Violate("", "ParseZCN(%s) = %d with nil error, but amount*10^10 = %s is not a non-negative integer in range", args, uint64(r), x.FloatString(3))
		} else {
			m.c.Count("loud_failures", 1)
		}
	})
}

func sigDigits(v uint64) int {
	s := strings.TrimRight(strconv.FormatUint(v, 10), "0")
	return len(s)
}

// refMsgpackInt decodes one msgpack integer of any integer family (positive/negative fixint, uint8..uint64, int8..int64)
// with the harness' own reader; ok=false for anything else.
func refMsgpackInt(b []byte) (v *big.Int, rest []byte, ok bool) {
	if len(b) == 0 {
		return nil, nil, false
	}
	be := func(n int, signed bool) (*big.Int, []byte, bool) {
		if len(b) < 1+n {
			return nil, nil, false
		}
		x := new(big.Int).SetBytes(b[1 : 1+n])
		if signed && b[1]&0x80 != 0 {
			x.Sub(x, new(big.Int).Lsh(big.NewInt(1), uint(8*n)))
		}
		return x, b[1+n:], true
	}
	switch c := b[0]; {
	case c <= 0x7f:
		return big.NewInt(int64(c)), b[1:], true
	case c >= 0xe0:
		return big.NewInt(int64(int8(c))), b[1:], true
	case c == 0xcc:
		return be(1, false)
	case c == 0xcd:
		return be(2, false)
	case c == 0xce:
		return be(4, false)
	case c == 0xcf:
		return be(8, false)
	case c == 0xd0:
		return be(1, true)
	case c == 0xd1:
		return be(2, true)
	case c == 0xd2:
		return be(4, true)
	case c == 0xd3:
		return be(8, true)
	}
	return nil, nil, false
}

// codec: the msgpack form of an amount is an unsigned integer with exactly that value; a negative integer on the wire is
// refused (never a wrapped amount); what the package wrote it reads back.
func (m *c18mon) codec(cn uint64) {
	args := fmt.Sprint(cn)
	m.guard("Coin.MarshalMsg", args, func() {
		m.c.Count("eval_codec", 1)
		enc, err := currency.Coin(cn).MarshalMsg(nil)
		if err != nil {
			m.c.Violate("", "Coin(%d).MarshalMsg failed: %v", cn, err)
			return
		}
		v, rest, ok := refMsgpackInt(enc)
		if !ok || len(rest) != 0 || v.Cmp(bu(cn)) != 0 {
			m.c.Violate("", "Coin(%d).MarshalMsg wrote %x, which an independent msgpack reader takes for %v (rest %d bytes)", cn, enc, v, len(rest))
			return
		}
		if currency.Coin(cn).Msgsize() < len(enc) {
			m.c.Violate("", "Coin(%d).Msgsize() = %d is below the %d bytes written", cn, currency.Coin(cn).Msgsize(), len(enc))
		}
		var back currency.Coin
		if _, err := back.UnmarshalMsg(enc); err != nil || uint64(back) != cn {
			m.c.Violate("", "Coin(%d) does not survive MarshalMsg/UnmarshalMsg: %d, %v", cn, uint64(back), err)
		}
		// the canonical unsigned 64-bit form must be read as well
		full := append([]byte{0xcf}, new(big.Int).SetUint64(cn).FillBytes(make([]byte, 8))...)
		var b2 currency.Coin
		if _, err := b2.UnmarshalMsg(full); err != nil || uint64(b2) != cn {
			m.c.Violate("", "UnmarshalMsg(uint64 form of %d) = %d, %v", cn, uint64(b2), err)
		}
	})
	// the same 8 bytes as a signed integer: negative when the top bit is set, and then never an amount
	if cn>>63 == 1 || cn == 0 {
		neg := append([]byte{0xd3}, new(big.Int).SetUint64(cn|1<<63).FillBytes(make([]byte, 8))...)
		m.guard("Coin.UnmarshalMsg", fmt.Sprintf("%x", neg), func() {
			var c3 currency.Coin
			if _, err := c3.UnmarshalMsg(neg); err == nil {
				m.c.Violate("", "UnmarshalMsg(%x), a negative msgpack integer, returned the amount %d with nil error", neg, uint64(c3))
			} else {
				m.c.Count("loud_failures", 1)
			}
		})
		m.c.Count("negative_wire_integers_refused", 1)
	}
}

func (m *c18mon) roundTrip(cn uint64) {
	args := fmt.Sprint(cn)
	m.guard("ToZCN", args, func() {
		m.c.Count("eval_ToZCN", 1)
		f, err := currency.Coin(cn).ToZCN()
		if cn > math.MaxInt64 {
			if err == nil {
				// accepted only if the float is the nearest one to the exact quotient
				q, _ := new(big.Rat).SetFrac(bu(cn), ten10).Float64()
				if f != q {
					m.c.Violate("", "Coin(%d).ToZCN() = %v with nil error", cn, f)
				}
			} else {
				m.c.Count("loud_failures", 1)
			}
			return
		}
		if err != nil {
			m.c.Violate("", "Coin(%d).ToZCN(): %v", cn, err)
			return
		}
		if sigDigits(cn) <= 15 {
			back, err := currency.ParseZCN(f)
			if err != nil || uint64(back) != cn {
				m.c.Violate("", "ParseZCN(Coin(%d).ToZCN()=%v) = %d, %v: round trip lost the amount", cn, f, uint64(back), err)
			} else {
				m.c.Count("round_trips", 1)
			}
		}
	})
}

// case layout
//
//	[0, nB)                 row i of the exhaustive B x B table (+ unary on B[i], floats x B[i])
//	[nB, nB+nZ)             products congruent to 0 mod 2^64
//	then nR random chunks, nF float chunks, nP parse chunks
// c18concurrent: the conversions are plain functions of their arguments; called from several goroutines at once they
// return what they return alone (scratch state shared behind the scenes shows as a foreign result).
func c18concurrent(c *fw.Ctx) {
	amounts := append([]float64{7000, 1.5, 1e25, 6000, 0.1, 123.4567891, 1e-10, 922337203.6854775807, 1844674407.3709551615, 1844674407.3709551616, 2e9, 0, 3}, c18F...)
	type res struct {
		v   uint64
		bad bool
	}
	seq := make([][3]res, len(amounts))
	eval := func(i int) (o [3]res) {
		f := amounts[i]
		func() {
			defer func() {
				if recover() != nil {
					o[0] = res{0, true}
				}
			}()
			r, err := currency.ParseZCN(f)
			o[0] = res{uint64(r), err != nil}
		}()
		func() {
			defer func() {
				if recover() != nil {
					o[1] = res{0, true}
				}
			}()
			r, err := currency.Float64ToCoin(f)
			o[1] = res{uint64(r), err != nil}
		}()
		func() {
			defer func() {
				if recover() != nil {
					o[2] = res{0, true}
				}
			}()
			r, err := currency.MultFloat64(currency.Coin(1000003), f)
			o[2] = res{uint64(r), err != nil}
		}()
		return
	}
	for i := range amounts {
		seq[i] = eval(i)
	}
	var wg sync.WaitGroup
	var mu sync.Mutex
	first := ""
	for g := 0; g < 8; g++ {
		wg.Add(1)
		go func(g int) {
			defer wg.Done()
			for k := 0; k < 400; k++ {
				for j := range amounts {
					i := (j*7 + g*13 + k) % len(amounts)
					if got := eval(i); got != seq[i] {
						mu.Lock()
						if first == "" {
							first = fmt.Sprintf("amount %v: (ParseZCN, Float64ToCoin, MultFloat64(1000003, .)) = %v from 8 goroutines at once, %v when called alone (value, failed)", amounts[i], got, seq[i])
						}
						mu.Unlock()
						return
					}
				}
			}
		}(g)
	}
	wg.Wait()
	if first != "" {
		c.Violate("", "%s", first)
		return
	}
	c.Count("concurrent_conversion_calls", int64(8*400*len(amounts)*3))
}

func c18Layout(tier string) (nB, nZ, nR, nF, nP int) {
	nB = len(c18B)
	nZ = 64
	nR, nF, nP = 640, 320, 320
	if tier == "thorough" {
		nR, nF, nP = 20000, 6400, 6400
	}
	return
}

func runC18(c *fw.Ctx) {
	m := &c18mon{c: c}
	nB, nZ, nR, nF, _ := c18Layout(c.Tier)
	idx := c.Idx
	rnd64 := func() uint64 {
		switch c.Rng.Intn(4) {
		case 0:
			return c.Rng.Uint64()
		case 1:
			return c.Rng.Uint64() >> uint(c.Rng.Intn(64))
		case 2:
			return c18B[c.Rng.Intn(len(c18B))] + uint64(c.Rng.Intn(9)) - 4
		default:
			return uint64(1)<<uint(c.Rng.Intn(64)) + uint64(c.Rng.Intn(1000)) - 500
		}
	}
	switch {
	case idx < nB:
		a := c18B[idx]
		c.Describe(map[string]any{"kind": "boundary-row", "a": a, "against": "every b in the boundary set B and every float in F"})
		for _, b := range c18B {
			m.pairU(a, b)
			c.Distinct("nontrivial", fw.Hash64("pair", a, b))
		}
		m.unary(a)
		m.roundTrip(a)
		m.codec(a)
		for _, f := range c18F {
			m.multFloat(a, f)
			c.Distinct("nontrivial", fw.Hash64("mf", a, math.Float64bits(f)))
		}
		if idx < len(c18F) {
			m.floatToCoin(c18F[idx])
			m.parseZCN(c18F[idx])
		}
		if idx == 3 {
			c.Sample(map[string]any{"kind": "boundary-row", "a": a, "B_size": len(c18B), "F_size": len(c18F), "B_head": c18B[:12]})
		}
	case idx < nB+nZ:
		// pairs whose true product is a non-zero multiple of 2^64: a = 2^i * odd, b = 2^(64-i) * m
		i := uint(idx-nB) + 1
		if i > 63 {
			i = 63
		}
		c.Describe(map[string]any{"kind": "product==0 mod 2^64", "i": i})
		for k := 0; k < 400; k++ {
			odd := (c.Rng.Uint64() >> (i + uint(c.Rng.Intn(int(64-i))))) | 1
			a := odd << i
			if a>>i != odd {
				continue
			}
			maxm := uint64(1)<<i - 1
			mm := uint64(1)
			if maxm > 1 {
				mm = 1 + c.Rng.Uint64()%maxm
			}
			b := mm << (64 - i)
			if a == 0 || b == 0 {
				continue
			}
			m.pairU(a, b)
			m.pairU(b, a)
			c.Count("wrap_to_zero_pairs", 2)
			c.Distinct("nontrivial", fw.Hash64("pair", a, b))
		}
		if idx-nB < 8 {
			c18concurrent(c)
		}
	case idx < nB+nZ+nR:
		c.Describe(map[string]any{"kind": "random-pairs"})
		for k := 0; k < 4000; k++ {
			a, b := rnd64(), rnd64()
			m.pairU(a, b)
			if k%8 == 0 {
				m.unary(a)
				m.roundTrip(a >> uint(c.Rng.Intn(40)))
				m.codec(a >> uint(c.Rng.Intn(64)))
				m.codec(a | 1<<63)
			}
			c.Distinct("nontrivial", fw.Hash64("pair", a, b))
		}
	case idx < nB+nZ+nR+nF:
		c.Describe(map[string]any{"kind": "random-floats"})
		for k := 0; k < 3000; k++ {
			var f float64
			switch c.Rng.Intn(5) {
			case 0:
				f = math.Float64frombits(c.Rng.Uint64())
			case 1:
				f = c18F[c.Rng.Intn(len(c18F))]
			case 2:
				f = math.Ldexp(c.Rng.Float64(), c.Rng.Intn(140)-70)
			case 3:
				f = float64(rnd64())
				if c.Rng.Intn(2) == 0 {
					f = math.Nextafter(f, math.Inf(c.Rng.Intn(2)*2-1))
				}
			default:
				f = c.Rng.Float64() * 4
			}
			m.floatToCoin(f)
			m.multFloat(rnd64(), f)
			c.Distinct("nontrivial", fw.Hash64("f", math.Float64bits(f)))
		}
	default:
		c.Describe(map[string]any{"kind": "decimal-amounts"})
		for k := 0; k < 3000; k++ {
			// decimal strings with 1..17 significant digits and 0..12 decimals
			nd := 1 + c.Rng.Intn(17)
			var sb strings.Builder
			sb.WriteByte(byte('1' + c.Rng.Intn(9)))
			for j := 1; j < nd; j++ {
				sb.WriteByte(byte('0' + c.Rng.Intn(10)))
			}
			dec := c.Rng.Intn(13)
			s := sb.String() + "e-" + strconv.Itoa(dec)
			if c.Rng.Intn(6) == 0 {
				s = sb.String() + "e" + strconv.Itoa(c.Rng.Intn(6))
			}
			f, _ := strconv.ParseFloat(s, 64)
			if c.Rng.Intn(40) == 0 {
				f = -f
			}
			m.parseZCN(f)
			// round trip of an amount with <= 15 significant digits
			nd = 1 + c.Rng.Intn(15)
			v := uint64(1 + c.Rng.Intn(9))
			for j := 1; j < nd; j++ {
				v = v*10 + uint64(c.Rng.Intn(10))
			}
			for z := c.Rng.Intn(19 - nd); z > 0 && v <= math.MaxInt64/10; z-- {
				v *= 10
			}
			m.roundTrip(v)
			// the immediate float neighbours of a 10-decimal amount: their shortest decimal has 16-17 significant digits,
			// amount*10^10 is not an integer, so they must be refused
			amt := uint64(c.Rng.Int63n(2_000_000_000_000)) // up to 200 ZCN, mostly below 1 ZCN for small draws
			if c.Rng.Intn(2) == 0 {
				amt = uint64(c.Rng.Int63n(10_000_000_000))
			}
			fa, _ := new(big.Rat).SetFrac(bu(amt), ten10).Float64()
			m.parseZCN(fa)
			m.parseZCN(math.Nextafter(fa, math.Inf(1)))
			m.parseZCN(math.Nextafter(fa, 0))
			c.Count("parse_neighbours", 2)
			c.Distinct("nontrivial", fw.Hash64("d", s, v))
		}
	}
}

func init() {
	fw.Register(&fw.Prop{
		ID:           "C18",
		EvalCounters: []string{"eval_AddCoin", "eval_MinusCoin", "eval_MultCoin", "eval_Min", "eval_AddInt64", "eval_MinusInt64", "eval_DistributeCoin", "eval_Int64", "eval_Int64ToCoin", "eval_Float64", "eval_Float64ToCoin", "eval_MultFloat64", "eval_ParseZCN", "eval_ToZCN", "eval_codec"},
		Level:        "exploration",
		Rule: "cases: (1) every row of the exhaustive B x B table, B = boundary set of ~290 uint64 values (0..5, 2^k-1/2^k/2^k+1, sqrt and max neighbourhoods, 10^k±1), each pair through AddCoin/MinusCoin/MultCoin/Min/AddInt64/MinusInt64/DistributeCoin " +
			"(second operand also reinterpreted as int64) plus unary conversions, the msgpack codec of Coin (what MarshalMsg writes is read by an independent msgpack reader as an unsigned integer of exactly that value; a negative integer on the wire is refused), ToZCN/ParseZCN round trip and MultFloat64 against the float set F; (2) pairs whose true product is a non-zero multiple of 2^64; (3) random pairs biased to boundaries; " +
			"(4) random/boundary floats through Float64ToCoin and MultFloat64; (5) decimal amounts with 1..17 significant digits through ParseZCN and round trips, plus the nearest float to random 10-decimal amounts and its two immediate float neighbours (which must be refused). Oracle: math/big exact arithmetic, IEEE product + truncation for float helpers, " +
			"shortest round-trip decimal as exact rational for ParseZCN. distinct non-trivial = distinct operand tuples evaluated",
		Cases: func(tier string) int { a, b, cc, d, e := c18Layout(tier); return a + b + cc + d + e },
		Run:   runC18,
		Floors: map[string]int64{"concurrent_conversion_calls": 1000000, "eval_MultCoin": 100000, "eval_AddCoin": 100000, "eval_DistributeCoin": 100000, "eval_Float64ToCoin": 50000, "eval_MultFloat64": 50000,
			"eval_ParseZCN": 50000, "eval_codec": 1000, "negative_wire_integers_refused": 500, "round_trips": 20000, "wrap_to_zero_pairs": 20000, "loud_failures": 10000, "parse_ok": 5000, "parse_neighbours": 100000},
		Assumptions: []string{
			"AddInt64/MinusInt64 with a negative operand: an error or the exact result are both accepted (the helper documents refusal)",
			"Coin.Float64: the IEEE-nearest float with nil error, or an error, are accepted",
			"ParseZCN results in (MaxInt64, MaxUint64] are accepted if exact; -0 arguments may answer 0 or error",
			"the B x B part is exhaustive over the boundary set, everything else is sampled",
		},
	})
}
