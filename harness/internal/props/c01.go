package props

import (
	"bytes"
	"errors"
	"fmt"
	"strings"

	"github.com/0chain/common/core/util"
	"github.com/linxGnu/grocksdb"

	"verif/harness/internal/fw"
	lab "verif/harness/internal/mptlab"
)

// C01 — the state trie behaves as a map from paths to values. Oracle: a Go map, checked after every operation.

type mptStore struct {
	db      util.NodeDB
	cleanup func()
	name    string
	base    util.NodeDB
}

// openStore builds one of the four store configurations; base content (if any) is inserted into the lower level
// through a separate trie at version 1 and returned in model.
func openStore(c *fw.Ctx, kind int, g *lab.PathGen, model map[string][]byte, tag string) (st mptStore, root util.Key) {
	diskPath := fmt.Sprintf("/verif-stub/%s/%d/%d/%s", c.Prop.ID, c.Seed, c.Idx, tag)
	switch kind {
	case 0:
		st = mptStore{db: util.NewMemoryNodeDB(), name: "memory", cleanup: func() {}}
	case 2:
		p, err := util.NewPNodeDB(diskPath, "")
		if err != nil {
			panic(err)
		}
		st = mptStore{db: p, name: "persistent", cleanup: func() { p.Close(); grocksdb.DropDisk(diskPath) }}
	default:
		var base util.NodeDB
		cleanup := func() {}
		if kind == 1 {
			base = util.NewMemoryNodeDB()
			st.name = "layered(memory over memory)"
		} else {
			p, err := util.NewPNodeDB(diskPath, "")
			if err != nil {
				panic(err)
			}
			base = p
			cleanup = func() { p.Close(); grocksdb.DropDisk(diskPath) }
			st.name = "layered(memory over persistent)"
		}
		m0 := lab.NewMPT(base, 1, nil)
		var psc lab.Scratch
		nb := c.Rng.Intn(14)
		for i := 0; i < nb; i++ {
			p := g.Pick(lab.SortedKeys(model))
			v := lab.GenValue(c.Rng, i)
			if _, err := m0.Insert(psc.P(p), &lab.Val{B: v}); err != nil {
				panic(fmt.Sprintf("base insert failed: %v", err))
			}
			model[p] = v
			c.Tracef("base ins %q=%q", p, v)
		}
		root = m0.GetRoot()
		st.db = util.NewLevelNodeDB(util.NewMemoryNodeDB(), base, false)
		st.base = base
		st.cleanup = cleanup
	}
	return
}

func runC01(c *fw.Ctx) {
	var psc lab.Scratch // every path handed to the trie lives in this re-used buffer
	var vbox lab.ValueBox // every third inserted value travels in one re-used value object of the library's own type
	defer func() { c.Count("inserts_with_a_reused_value_object", vbox.Used) }()
	r := c.Rng
	g := lab.NewPathGen(r)
	model := map[string][]byte{}
	kind := c.Idx % 4
	st, root := openStore(c, kind, g, model, "s")
	defer st.cleanup()
	version := int64(2)
	if st.base != nil && r.Intn(2) == 0 {
		version = 1 // a layered trie at the version of the state below it (a transaction over a block): identical nodes can re-appear
	}
	bumpEvery := 0
	if r.Intn(3) == 0 {
		bumpEvery = 2 + r.Intn(8)
	}
	m := lab.NewMPT(st.db, version, root)
	baseRoot := append([]byte(nil), root...)
	baseModel := lab.CopyContent(model)
	c.Tracef("store=%s bumpEvery=%d alphabet=%s", st.name, bumpEvery, g.Alphabet)
	if root != nil {
		if f := lab.CheckMap(m, model, nil); f != "" {
			c.Violate("", "after opening on base content: %s\ntrace: %s", f, strings.Join(c.Trace(), "; "))
			return
		}
	}
	maxOps := 60
	if !c.Quick() {
		maxOps = 120
	}
	nops := 8 + r.Intn(maxOps-7)
	restructuring := 0
	fail := func(format string, a ...any) {
		c.Violate("", "%s\ntrace: %s", fmt.Sprintf(format, a...), strings.Join(c.Trace(), "; "))
	}
	for i := 0; i < nops; i++ {
		if bumpEvery > 0 && i > 0 && i%bumpEvery == 0 {
			if r.Intn(2) == 0 {
				version++
			} // else: a new trie object (cold cache) at the same version
			m = lab.NewMPT(st.db, version, m.GetRoot())
			c.Tracef("reopen v%d", version)
		}
		live := lab.SortedKeys(model)
		p := g.Pick(live)
		rootBefore := append([]byte(nil), m.GetRoot()...)
		term := lab.Terminal(st.db, rootBefore, p)
		nodesBefore, _ := lab.Walk(st.db, rootBefore)
		_, bL, bF, bE := lab.Shape(nodesBefore)
		_, present := model[p]
		op := r.Intn(100)
		opName := ""
		switch {
		case op < 52:
			opName = "ins"
			v := lab.GenValue(r, i)
			c.Tracef("ins %q=%q", p, v)
			key, err := m.Insert(psc.P(p), vbox.V(v))
			if err != nil {
				fail("Insert(%q) failed: %v", p, err)
				return
			}
			if !bytes.Equal(key, m.GetRoot()) {
				fail("Insert(%q) returned root %x but GetRoot() is %x", p, key, m.GetRoot())
				return
			}
			model[p] = v
		case op < 84:
			opName = "del"
			c.Tracef("del %q", p)
			_, err := m.Delete(psc.P(p))
			if present {
				if err != nil {
					fail("Delete(%q) of a present path failed: %v", p, err)
					return
				}
				delete(model, p)
			} else {
				if !errors.Is(err, util.ErrValueNotPresent) {
					fail("Delete(%q) of an absent path (ends at %s) returned %v, want ErrValueNotPresent", p, term, err)
					return
				}
				if !bytes.Equal(rootBefore, m.GetRoot()) {
					fail("Delete(%q) of an absent path changed the root", p)
					return
				}
				c.Count("delete_absent", 1)
			}
		case op < 90:
			opName = "insnil"
			var err error
			if r.Intn(2) == 0 {
				c.Tracef("ins %q=<nil>", p)
				_, err = m.Insert(psc.P(p), nil)
			} else {
				c.Tracef("ins %q=<empty encoding>", p)
				_, err = m.Insert(psc.P(p), &lab.Val{})
			}
			if present {
				if err != nil {
					fail("Insert(%q, empty) must delete the present path, got %v", p, err)
					return
				}
				delete(model, p)
			} else {
				if err != nil && !errors.Is(err, util.ErrValueNotPresent) {
					fail("Insert(%q, empty) on an absent path returned %v", p, err)
					return
				}
				if !bytes.Equal(rootBefore, m.GetRoot()) {
					fail("Insert(%q, empty) on an absent path changed the root", p)
					return
				}
			}
			c.Count("insert_empty_value", 1)
		case op < 96:
			opName = "getv"
			var v lab.Val
			err := m.GetNodeValue(psc.P(p), &v)
			if present {
				if err != nil || !bytes.Equal(v.B, model[p]) {
					fail("GetNodeValue(%q) = %q, %v; model has %q", p, v.B, err, model[p])
					return
				}
			} else if !errors.Is(err, util.ErrValueNotPresent) {
				fail("GetNodeValue(%q) on an absent path (ends at %s) returned %q, %v", p, term, v.B, err)
				return
			}
			c.Count("getnodevalue", 1)
		default:
			// over-size value: rare (allocates 10 MiB)
			if r.Intn(60) != 0 {
				continue
			}
			opName = "oversize"
			c.Tracef("ins %q=<oversize>", p)
			big := make([]byte, util.MPTMaxAllowableNodeSize+1)
			big[0] = 1
			_, err := m.Insert(psc.P(p), &lab.Val{B: big})
			if err == nil {
				fail("Insert(%q) accepted an over-size value", p)
				return
			}
			if !bytes.Equal(rootBefore, m.GetRoot()) {
				fail("rejected over-size Insert(%q) changed the root", p)
				return
			}
			c.Count("oversize_rejected", 1)
		}
		c.Count("ops", 1)
		c.Count("t:"+opName+":"+term, 1)
		if f := lab.CheckMap(m, model, lab.AbsentProbes(g, model)); f != "" {
			fail("after %s %q (path ended at %s): %s", opName, p, term, f)
			return
		}
		if i%5 == 4 { // a second handle with a cold cache on the same store, root and version reads the same content
			if f := lab.CheckMap(lab.NewMPT(st.db, version, m.GetRoot()), model, nil); f != "" {
				fail("a fresh trie object on the same store and root (cold cache) after %s %q: %s", opName, p, f)
				return
			}
			c.Count("cold_reader_checks", 1)
		}
		nodesAfter, missing := lab.Walk(st.db, m.GetRoot())
		if len(missing) > 0 {
			fail("after %s %q: %d reachable node(s) absent from the store", opName, p, len(missing))
			return
		}
		if i%3 == 2 {
			if f := lab.CheckIterVariants(m, model, nodesAfter); f != "" {
				fail("after %s %q: %s", opName, p, f)
				return
			}
			c.Count("iterate_variant_checks", 1)
		}
		sig, aL, aF, aE := lab.Shape(nodesAfter)
		c.Distinct("shapes", fw.Hash64(sig))
		if opName == "del" && present && (aF != bF || aE != bE) {
			restructuring++
			c.Count("restructuring_deletes", 1)
		}
		if opName == "ins" || (opName == "del" && present) {
			c.Distinct("transitions", fw.Hash64(opName, term, aL-bL, aF-bF, aE-bE))
		}
	}
	// operations on a layered trie never touch the lower level: the state the history started from is still readable,
	// unchanged, from the lower store alone
	if st.base != nil {
		if f := lab.CheckMap(lab.NewMPT(st.base, 1, baseRoot), baseModel, nil); f != "" {
			fail("the base state below the layered store changed: %s", f)
			return
		}
		c.Count("base_state_rechecked", 1)
	}
	c.Count("store:"+st.name, 1)
	if restructuring > 0 {
		c.NonTrivial(fw.Hash64(strings.Join(c.Trace(), ";")))
	}
	if c.Idx < 4 {
		tr := c.Trace()
		if len(tr) > 40 {
			tr = tr[:40]
		}
		c.Sample(map[string]any{"history": tr, "final_content": lab.FmtContent(model)})
	}
}

func init() {
	fw.Register(&fw.Prop{
		ID:    "C01",
		Level: "exploration",
		Rule: "every path is handed to the trie in one re-used scratch buffer (the previous path is overwritten by the next call; returned value bytes are overwritten as well). Seeded histories of 8..60 (quick) / 8..120 (thorough) operations (insert/overwrite, delete of present and absent paths, insert of nil/empty value, typed lookup, rare over-size insert) on one of four stores " +
			"(memory; memory over memory with base content; persistent; memory over persistent), optionally re-opening the trie (new object, cold cache) at a higher or at the same version every k operations; every fifth operation a second trie object on the same store, root and version must read the same content; every third operation Iterate over all node kinds (handed-out node keys = the reachable stored nodes, values = model), IterateFrom(root) and a handler error are checked; at the end the base state below a layered store must be unchanged. Paths are even-length lowercase hex of length 0..12 over 2-4 symbols, " +
			"picked relative to live paths (same, proper prefix, extension, sibling, divergent tail) so that node-boundary coincidences occur. After every operation: every live path looks up to its value, ~20 related absent paths return ErrValueNotPresent, " +
			"Iterate equals the map, every reachable node is in the store. A history is non-trivial if it contains at least one successful delete that changed the number of branch or extension nodes; distinct by full trace hash",
		Cases: func(tier string) int {
			if tier == "thorough" {
				return 400000
			}
			return 16000
		},
		Run: runC01,
		Floors: map[string]int64{"ops": 200000, "restructuring_deletes": 5000, "delete_absent": 5000, "insert_empty_value": 2000, "getnodevalue": 2000, "oversize_rejected": 1,
			"distinct:shapes": 500, "distinct:transitions": 30, "cold_reader_checks": 50000, "iterate_variant_checks": 80000, "base_state_rechecked": 5000,
			"t:ins:ext-ends-at0-len1": 1, "t:ins:ext-ends-at0": 1, "t:ins:ext-ends-mid": 1, "t:ins:ext-ends-mid-last": 1, "t:ins:ext-diverge-at0": 1, "t:ins:ext-diverge-mid": 1, "t:ins:ext-diverge-last": 1,
			"t:ins:leaf-longer": 1, "t:ins:leaf-longer-at0": 1, "t:ins:leaf-shorter": 1, "t:ins:leaf-diverge-at0": 1, "t:ins:leaf-diverge-mid": 1, "t:ins:full-exact-novalue": 1, "t:ins:full-nochild": 1,
			"t:del:ext-ends-at0": 1, "t:del:ext-ends-mid": 1, "t:del:full-exact-novalue": 1, "t:del:full-exact-value-1ch": 1, "t:del:full-exact-value-2ch": 1, "t:del:leaf-longer-at0": 1, "t:del:leaf-longer": 1,
			"t:del:leaf-exact": 1, "t:del:leaf-exact-emptypath": 1, "t:del:empty": 1,
			"store:memory": 1, "store:persistent": 1, "store:layered(memory over memory)": 1, "store:layered(memory over persistent)": 1},
		Assumptions: []string{
			"the persistent store is PNodeDB over the pure-Go grocksdb stand-in (the real binding cannot link in this sandbox)",
			"path alphabet is a 2-4 symbol subset of lowercase hex, lengths 0..12: structure-seeking, not uniform over all paths",
		},
	})
}
