// Package mptlab holds the shared workload pieces for the state-trie properties (C01–C05, C14, C16, C17):
// value type, structure-seeking path generator, content readers and store walkers.
package mptlab

import (
	"bytes"
	"context"
	"errors"
	"fmt"
	"math/rand"
	"sort"
	"strings"

	"github.com/0chain/common/core/logging"
	"github.com/0chain/common/core/statecache"
	"github.com/0chain/common/core/util"
	"go.uber.org/zap"
)

func init() { logging.Logger = zap.NewNop() }

// Val is a raw-bytes MPTSerializable.
type Val struct{ B []byte }

func (v *Val) MarshalMsg([]byte) ([]byte, error) { return append([]byte(nil), v.B...), nil }
func (v *Val) UnmarshalMsg(b []byte) ([]byte, error) {
	v.B = append([]byte(nil), b...)
	return nil, nil
}

// ValueBox is a caller-owned value object that is re-used: most inserts get a fresh Val, every third one gets the box's
// one *util.SecureSerializableValue (the library's own value type) with its buffer refilled in place - the value object
// and its bytes stay the caller's after Insert returned, so nothing the trie keeps may refer to them.
type ValueBox struct {
	ssv   util.SecureSerializableValue
	calls int
	Used  int64
}

func (b *ValueBox) V(v []byte) util.MPTSerializable {
	b.calls++
	if b.calls%3 != 0 || len(v) == 0 {
		return &Val{B: v}
	}
	for i := range b.ssv.Buffer {
		b.ssv.Buffer[i] = 0xee
	}
	b.ssv.Buffer = append(b.ssv.Buffer[:0], v...)
	b.Used++
	return &b.ssv
}

// Scratch is a caller-owned path buffer that is re-used for every call, the way a caller with a scratch buffer would:
// the bytes of an earlier path are overwritten by the next one, so nothing the trie keeps may point into it.
type Scratch struct{ b [80]byte }

func (s *Scratch) P(p string) util.Path {
	if len(p) > len(s.b) {
		return util.Path(p)
	}
	for i := range s.b { // what is left of the previous path is wiped as well
		s.b[i] = 'f'
	}
	n := copy(s.b[:], p)
	return util.Path(s.b[:n:n])
}

func NewMPT(db util.NodeDB, version int64, root util.Key) *util.MerklePatriciaTrie {
	return util.NewMerklePatriciaTrie(db, util.Sequence(version), root, statecache.NewEmpty())
}

// PathGen produces even-length lowercase-hex paths that collide structurally.
type PathGen struct {
	R        *rand.Rand
	Alphabet string
	MaxLen   int // in characters, even
}

func NewPathGen(r *rand.Rand) *PathGen {
	al := []string{"01", "01", "012", "01ef", "0f", "0123456789abcdef"}[r.Intn(6)] // the last one gives branches with up to 16 children
	return &PathGen{R: r, Alphabet: al, MaxLen: 4 + 2*r.Intn(5)}
}

func (g *PathGen) fresh() string {
	n := g.R.Intn(g.MaxLen/2+1) * 2
	if g.R.Intn(60) == 0 {
		n = 66 + 2*g.R.Intn(7) // a path longer than a 32-byte key in hex (66..78 characters)
	}
	b := make([]byte, n)
	for i := range b {
		b[i] = g.Alphabet[g.R.Intn(len(g.Alphabet))]
	}
	return string(b)
}

// Pick returns a path: fresh, or related to an existing one (the path itself, an even-length proper prefix,
// an extension by a suffix, a sibling differing in the last character or in one middle character).
func (g *PathGen) Pick(live []string) string {
	if len(live) == 0 || g.R.Intn(10) < 3 {
		return g.fresh()
	}
	p := live[g.R.Intn(len(live))]
	switch g.R.Intn(7) {
	case 0, 1:
		return p
	case 2: // proper even prefix
		if len(p) >= 2 {
			return p[:g.R.Intn(len(p)/2)*2]
		}
		return ""
	case 3: // extension
		k := 2 * (1 + g.R.Intn(2))
		b := []byte(p)
		for i := 0; i < k; i++ {
			b = append(b, g.Alphabet[g.R.Intn(len(g.Alphabet))])
		}
		return string(b)
	case 4: // sibling in last char
		if len(p) == 0 {
			return g.fresh()
		}
		b := []byte(p)
		b[len(b)-1] = g.Alphabet[g.R.Intn(len(g.Alphabet))]
		return string(b)
	case 5: // differ in a middle char
		if len(p) == 0 {
			return g.fresh()
		}
		b := []byte(p)
		b[g.R.Intn(len(b))] = g.Alphabet[g.R.Intn(len(g.Alphabet))]
		return string(b)
	default: // prefix plus different tail
		if len(p) >= 2 {
			cut := g.R.Intn(len(p)/2) * 2
			b := []byte(p[:cut])
			for len(b) < len(p) {
				b = append(b, g.Alphabet[g.R.Intn(len(g.Alphabet))])
			}
			return string(b)
		}
		return g.fresh()
	}
}

// GenValue returns a non-empty value; biased to separator bytes and binary content.
func GenValue(r *rand.Rand, tag int) []byte {
	switch r.Intn(10) {
	case 0:
		return []byte(":")
	case 1:
		return []byte("::")
	case 2:
		return []byte(fmt.Sprintf(":v%d:", tag))
	case 3:
		return []byte{0}
	case 4:
		n := 1 + r.Intn(40)
		if r.Intn(8) == 0 { // rarely a value of several hundred bytes or a few KiB (past small fixed-size scratch buffers)
			n = []int{430 + r.Intn(100), 4090 + r.Intn(20)}[r.Intn(2)]
		}
		b := make([]byte, n)
		r.Read(b)
		return b
	case 5:
		return []byte(fmt.Sprintf("%d:%d", tag, r.Intn(3)))
	default:
		return []byte(fmt.Sprintf("v%d", r.Intn(6)))
	}
}

func SortedKeys(m map[string][]byte) []string {
	ks := make([]string, 0, len(m))
	for k := range m {
		ks = append(ks, k)
	}
	sort.Strings(ks)
	return ks
}

func FmtContent(m map[string][]byte) string {
	var sb strings.Builder
	sb.WriteByte('{')
	for i, k := range SortedKeys(m) {
		if i > 0 {
			sb.WriteByte(' ')
		}
		fmt.Fprintf(&sb, "%q=%q", k, m[k])
	}
	sb.WriteByte('}')
	s := sb.String()
	if len(s) > 600 {
		s = s[:600] + "…"
	}
	return s
}

func EqualContent(a, b map[string][]byte) bool {
	if len(a) != len(b) {
		return false
	}
	for k, v := range a {
		w, ok := b[k]
		if !ok || !bytes.Equal(v, w) {
			return false
		}
	}
	return true
}

func CopyContent(a map[string][]byte) map[string][]byte {
	o := make(map[string][]byte, len(a))
	for k, v := range a {
		o[k] = v
	}
	return o
}

// IterAll reads the whole content through Iterate(NodeTypeValueNode).
func IterAll(m util.MerklePatriciaTrieI) (map[string][]byte, error) {
	out := map[string][]byte{}
	var dup error
	err := m.Iterate(context.Background(), func(ctx context.Context, path util.Path, key util.Key, node util.Node) error {
		if node == nil {
			return nil
		}
		if vn, ok := node.(*util.ValueNode); ok {
			p := string(append([]byte(nil), path...))
			if _, had := out[p]; had {
				dup = fmt.Errorf("iterate yielded path %q twice", p)
			}
			vb := vn.GetValueBytes()
			out[p] = append([]byte(nil), vb...)
			for i := range vb { // same for the bytes handed to an Iterate handler
				vb[i] ^= 0x5a
			}
		}
		return nil
	}, util.NodeTypeValueNode)
	if err == nil {
		err = dup
	}
	return out, err
}

// CheckMap compares the trie with the model: every live path, a probe set of absent paths, full iteration.
// Returns "" or a description of the first disagreement.
func CheckMap(m util.MerklePatriciaTrieI, model map[string][]byte, absent []string) string {
	var sc Scratch
	for k, v := range model {
		d, err := m.GetNodeValueRaw(sc.P(k))
		if err != nil || !bytes.Equal(d, v) {
			return fmt.Sprintf("lookup %q = %q, %v; model has %q", k, d, err, v)
		}
		for i := range d { // the returned bytes belong to the caller: overwriting them must not touch the trie
			d[i] ^= 0x5a
		}
	}
	for _, k := range absent {
		if _, ok := model[k]; ok {
			continue
		}
		d, err := m.GetNodeValueRaw(sc.P(k))
		if !errors.Is(err, util.ErrValueNotPresent) {
			return fmt.Sprintf("lookup of absent path %q = %q, %v; want ErrValueNotPresent", k, d, err)
		}
	}
	got, err := IterAll(m)
	if err != nil {
		return fmt.Sprintf("iterate failed: %v", err)
	}
	if !EqualContent(got, model) {
		return fmt.Sprintf("iterate yields %s, model is %s", FmtContent(got), FmtContent(model))
	}
	return ""
}

// CheckIterVariants exercises the other traversal entry points on the same state: Iterate over all node kinds (the node
// keys handed to the handler must be exactly the reachable stored nodes, each at its position, the value pairs exactly
// the model), IterateFrom the root (same pairs as Iterate), and a handler error (must stop the traversal and come back).
func CheckIterVariants(m *util.MerklePatriciaTrie, model map[string][]byte, nodes []WalkedNode) string {
	want := map[string]string{}
	for _, w := range nodes {
		want[string(w.Key)] = w.Path
	}
	vals := map[string][]byte{}
	seen := map[string]bool{}
	var bad string
	err := m.Iterate(context.Background(), func(ctx context.Context, path util.Path, key util.Key, node util.Node) error {
		if node == nil {
			return nil
		}
		if vn, ok := node.(*util.ValueNode); ok {
			p := string(path)
			if _, had := vals[p]; had {
				bad = fmt.Sprintf("value at %q handed out twice", p)
			}
			vals[p] = append([]byte(nil), vn.GetValueBytes()...)
			return nil
		}
		wp, ok := want[string(key)]
		if !ok {
			bad = fmt.Sprintf("node %x at %q is not a reachable stored node", key, path)
		} else if wp != string(path) && !seen[string(key)] {
			// identical sub-tries share a key; only the first position is recorded by the walker
			if !bytes.Equal(node.GetHashBytes(), key) {
				bad = fmt.Sprintf("node at %q handed out under key %x, its hash is %x", path, key, node.GetHashBytes())
			}
		}
		seen[string(key)] = true
		return nil
	}, util.NodeTypesAll)
	if err != nil {
		return fmt.Sprintf("Iterate over all node kinds failed: %v", err)
	}
	if bad != "" {
		return "Iterate over all node kinds: " + bad
	}
	if len(seen) != len(want) {
		return fmt.Sprintf("Iterate over all node kinds visited %d distinct nodes, %d are reachable in the store", len(seen), len(want))
	}
	if !EqualContent(vals, model) {
		return fmt.Sprintf("Iterate over all node kinds yields values %s, model is %s", FmtContent(vals), FmtContent(model))
	}
	from := map[string][]byte{}
	if root := m.GetRoot(); len(root) > 0 {
		err = m.IterateFrom(context.Background(), root, func(ctx context.Context, path util.Path, key util.Key, node util.Node) error {
			if vn, ok := node.(*util.ValueNode); ok {
				from[string(path)] = append([]byte(nil), vn.GetValueBytes()...)
			}
			return nil
		}, util.NodeTypeValueNode)
		if err != nil {
			return fmt.Sprintf("IterateFrom(root) failed: %v", err)
		}
		if !EqualContent(from, model) {
			return fmt.Sprintf("IterateFrom(root) yields %s, model is %s", FmtContent(from), FmtContent(model))
		}
	}
	if len(model) > 0 {
		stop := errors.New("stop")
		calls := 0
		err = m.Iterate(context.Background(), func(ctx context.Context, path util.Path, key util.Key, node util.Node) error {
			calls++
			return stop
		}, util.NodeTypeValueNode)
		if err != stop || calls != 1 {
			return fmt.Sprintf("a handler error after the first value: Iterate returned %v after %d handler calls", err, calls)
		}
	}
	return ""
}

// AbsentProbes returns paths related to the model's live paths (prefixes, extensions, siblings, empty) plus fresh ones.
func AbsentProbes(g *PathGen, model map[string][]byte) []string {
	live := SortedKeys(model)
	ps := []string{""}
	for i := 0; i < 6; i++ {
		ps = append(ps, g.Pick(live))
	}
	for _, k := range live {
		if len(k) >= 2 {
			ps = append(ps, k[:len(k)-2])
		}
		ps = append(ps, k+"00", k+string(g.Alphabet[0])+string(g.Alphabet[len(g.Alphabet)-1]))
		if len(ps) > 40 {
			break
		}
	}
	return ps
}

// ---- store walking ----

type WalkedNode struct {
	Key   []byte
	Node  util.Node
	Depth int    // characters consumed above this node
	Path  string // position of the node
}

// Walk collects the nodes reachable from root through db. Missing nodes are reported in missing.
func Walk(db util.NodeDB, root util.Key) (nodes []WalkedNode, missing [][]byte) {
	var rec func(key []byte, path string)
	rec = func(key []byte, path string) {
		n, err := db.GetNode(key)
		if err != nil || n == nil {
			missing = append(missing, append([]byte(nil), key...))
			return
		}
		nodes = append(nodes, WalkedNode{Key: append([]byte(nil), key...), Node: n, Depth: len(path), Path: path})
		switch t := n.(type) {
		case *util.FullNode:
			for i, ch := range t.Children {
				if ch != nil {
					rec(ch, path+string("0123456789abcdef"[i]))
				}
			}
		case *util.ExtensionNode:
			rec(t.NodeKey, path+string(t.Path))
		}
	}
	if len(root) > 0 {
		rec(root, "")
	}
	return
}

// Shape is a structural signature of the reachable trie: sorted multiset of kind@depth(children,value).
func Shape(nodes []WalkedNode) (sig string, nL, nF, nE int) {
	parts := make([]string, 0, len(nodes))
	for _, w := range nodes {
		switch t := w.Node.(type) {
		case *util.LeafNode:
			nL++
			parts = append(parts, fmt.Sprintf("L%d/%d", w.Depth, len(t.Path)))
		case *util.FullNode:
			nF++
			v := 0
			if t.HasValue() {
				v = 1
			}
			parts = append(parts, fmt.Sprintf("F%d/%d/%d", w.Depth, t.GetNumChildren(), v))
		case *util.ExtensionNode:
			nE++
			parts = append(parts, fmt.Sprintf("E%d/%d", w.Depth, len(t.Path)))
		}
	}
	sort.Strings(parts)
	return strings.Join(parts, ","), nL, nF, nE
}

// Terminal classifies where path ends in the trie stored in db under root (before an operation).
func Terminal(db util.NodeDB, root util.Key, path string) string {
	if len(root) == 0 {
		return "empty"
	}
	key := []byte(root)
	rest := path
	for {
		n, err := db.GetNode(key)
		if err != nil || n == nil {
			return "missing"
		}
		switch t := n.(type) {
		case *util.LeafNode:
			lp := string(t.Path)
			switch {
			case lp == rest:
				if len(lp) == 0 {
					return "leaf-exact-emptypath"
				}
				return "leaf-exact"
			case strings.HasPrefix(lp, rest):
				if len(rest) == 0 {
					return "leaf-longer-at0"
				}
				return "leaf-longer"
			case strings.HasPrefix(rest, lp):
				if len(lp) == 0 {
					return "leaf-shorter-emptypath"
				}
				return "leaf-shorter"
			default:
				if lp[0] != rest[0] {
					return "leaf-diverge-at0"
				}
				return "leaf-diverge-mid"
			}
		case *util.FullNode:
			if len(rest) == 0 {
				if t.HasValue() {
					return fmt.Sprintf("full-exact-value-%dch", min(int(t.GetNumChildren()), 3))
				}
				return "full-exact-novalue"
			}
			ch := t.GetChild(rest[0])
			if ch == nil {
				return "full-nochild"
			}
			key = ch
			rest = rest[1:]
		case *util.ExtensionNode:
			ep := string(t.Path)
			switch {
			case strings.HasPrefix(rest, ep):
				key = t.NodeKey
				rest = rest[len(ep):]
			case strings.HasPrefix(ep, rest):
				if len(rest) == 0 {
					if len(ep) == 1 {
						return "ext-ends-at0-len1"
					}
					return "ext-ends-at0"
				}
				if len(ep)-len(rest) == 1 {
					return "ext-ends-mid-last"
				}
				return "ext-ends-mid"
			default:
				i := 0
				for i < len(ep) && i < len(rest) && ep[i] == rest[i] {
					i++
				}
				if i == 0 {
					if len(ep) == 1 {
						return "ext-diverge-at0-len1"
					}
					return "ext-diverge-at0"
				}
				if i == len(ep)-1 {
					return "ext-diverge-last"
				}
				return "ext-diverge-mid"
			}
		default:
			return "other"
		}
	}
}

func min(a, b int) int {
	if a < b {
		return a
	}
	return b
}
