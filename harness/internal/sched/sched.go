// Package sched is a cooperative scheduler for code instrumented with a yield hook: participants run as
// goroutines that park at every yield point; the scheduler resumes exactly one at a time according to a plan.
package sched

import (
	"bytes"
	"fmt"
	"runtime"
	"strconv"
	"sync"
	"time"
)

type Part struct {
	Name   string
	resume chan struct{}
	parked chan string // yield point name, or "" when finished
	done   bool
}

type Sched struct {
	mu    sync.Mutex
	byGID map[int64]*Part
}

func New() *Sched { return &Sched{byGID: map[int64]*Part{}} }

func gid() int64 {
	var buf [64]byte
	n := runtime.Stack(buf[:], false)
	// "goroutine 123 [running]:"
	b := buf[:n]
	b = b[len("goroutine "):]
	if i := bytes.IndexByte(b, ' '); i > 0 {
		id, _ := strconv.ParseInt(string(b[:i]), 10, 64)
		return id
	}
	return -1
}

// Yield is installed as the hook: a controlled goroutine parks here until resumed; others pass through.
func (s *Sched) Yield(point string) {
	s.mu.Lock()
	p := s.byGID[gid()]
	s.mu.Unlock()
	if p == nil {
		return
	}
	p.parked <- point
	<-p.resume
}

// Spawn registers a participant; it starts running when first resumed.
func (s *Sched) Spawn(name string, f func()) *Part {
	p := &Part{Name: name, resume: make(chan struct{}), parked: make(chan string)}
	ready := make(chan struct{})
	go func() {
		s.mu.Lock()
		s.byGID[gid()] = p
		s.mu.Unlock()
		close(ready)
		<-p.resume
		f()
		s.mu.Lock()
		delete(s.byGID, gid())
		s.mu.Unlock()
		p.parked <- ""
	}()
	<-ready
	return p
}

// Step is one scheduling decision: who ran and at which yield point it parked next ("" = finished).
type Step struct {
	Who   int
	Point string
	Live  int // number of live participants when the decision was taken
}

// ErrStuck is returned when a resumed participant neither parks nor finishes (it blocked on a real lock).
var ErrStuck = fmt.Errorf("sched: participant did not reach a yield point (blocked outside the hook)")

// BlockWait is how long a resumed participant may run without reaching a yield point before it is considered
// blocked on a real lock held by a parked participant (it stays in flight and re-joins when it parks).
var BlockWait = 2 * time.Millisecond

// Run executes the participants. choose is called with the indices of runnable participants (live and not blocked
// on a real lock) and the index of the participant that ran last (-1 at the start) and returns the index to resume.
// A participant that blocks on a real mutex held by a parked participant does not deadlock the scheduler: it is
// set aside as "in flight" and becomes runnable again once it reaches its next yield point.
func Run(parts []*Part, choose func(live []int, last int, step int) int) ([]Step, error) {
	var trace []Step
	last := -1
	inflight := map[int]bool{}
	collect := func(w int, pt string) {
		if pt == "" {
			parts[w].done = true
		}
		delete(inflight, w)
		trace = append(trace, Step{Who: w, Point: pt})
	}
	for step := 0; ; step++ {
		// participants that were blocked may have parked meanwhile
		for w := range inflight {
			select {
			case pt := <-parts[w].parked:
				collect(w, pt)
				if pt != "" {
					// it is parked at a yield point now: runnable again
				}
			default:
			}
		}
		var live []int
		nlive := 0
		for i, p := range parts {
			if !p.done {
				nlive++
				if !inflight[i] {
					live = append(live, i)
				}
			}
		}
		if nlive == 0 {
			return trace, nil
		}
		if len(live) == 0 {
			// everybody is in flight: wait for any of them
			deadline := time.After(5 * time.Second)
			got := false
			for !got {
				for w := range inflight {
					select {
					case pt := <-parts[w].parked:
						collect(w, pt)
						got = true
					default:
					}
					if got {
						break
					}
				}
				if !got {
					select {
					case <-deadline:
						return trace, ErrStuck
					case <-time.After(200 * time.Microsecond):
					}
				}
			}
			continue
		}
		w := choose(live, last, step)
		p := parts[w]
		if p.done || inflight[w] {
			return trace, fmt.Errorf("sched: chose a participant that is not runnable")
		}
		p.resume <- struct{}{}
		select {
		case pt := <-p.parked:
			if pt == "" {
				p.done = true
			}
			trace = append(trace, Step{Who: w, Point: pt, Live: len(live)})
		case <-time.After(BlockWait):
			inflight[w] = true
			trace = append(trace, Step{Who: w, Point: "(blocked on a lock)", Live: len(live)})
		}
		last = w
	}
}

// Abort lets remaining parked participants run to completion uncontrolled (used after an error).
func Abort(parts []*Part) {
	for _, p := range parts {
		if !p.done {
			go func(p *Part) {
				for {
					select {
					case p.resume <- struct{}{}:
					case pt := <-p.parked:
						if pt == "" {
							return
						}
					case <-time.After(5 * time.Second):
						return
					}
				}
			}(p)
		}
	}
}
