// Package model holds reference models that share no code with /repo.
package model

import (
	"bytes"
	"encoding/binary"
	"encoding/hex"
	"errors"
	"sort"

	"golang.org/x/crypto/sha3"
)

// ---- canonical state-trie root from sorted content (independent implementation of the published node-hash format) ----
//
//	node hash   = sha3-256( LE64(origin) ‖ body )
//	leaf body   = prefix ':' path ':' value            (prefix = path from the root to the node)
//	branch body = hex(child_0) ':' … hex(child_15) ':' value
//	ext body    = path ':' childhash(raw 32 bytes)

func H256(b []byte) []byte { h := sha3.Sum256(b); return h[:] }

func le64(v int64) []byte {
	b := make([]byte, 8)
	binary.LittleEndian.PutUint64(b, uint64(v))
	return b
}

type ent struct {
	rem string
	val []byte
}

// CanonStats counts node kinds of the canonical trie (coverage reporting).
type CanonStats struct{ Leaves, Branches, Exts, BranchValues int }

func canonBuild(origin int64, prefix string, es []ent, st *CanonStats) []byte {
	if len(es) == 0 {
		return nil
	}
	if len(es) == 1 {
		var b bytes.Buffer
		b.Write(le64(origin))
		b.WriteString(prefix)
		b.WriteByte(':')
		b.WriteString(es[0].rem)
		b.WriteByte(':')
		b.Write(es[0].val)
		if st != nil {
			st.Leaves++
		}
		return H256(b.Bytes())
	}
	cp := es[0].rem
	for _, e := range es[1:] {
		i := 0
		for i < len(cp) && i < len(e.rem) && cp[i] == e.rem[i] {
			i++
		}
		cp = cp[:i]
	}
	if len(cp) > 0 {
		sub := make([]ent, len(es))
		for i, e := range es {
			sub[i] = ent{e.rem[len(cp):], e.val}
		}
		child := canonBranch(origin, prefix+cp, sub, st)
		var b bytes.Buffer
		b.Write(le64(origin))
		b.WriteString(cp)
		b.WriteByte(':')
		b.Write(child)
		if st != nil {
			st.Exts++
		}
		return H256(b.Bytes())
	}
	return canonBranch(origin, prefix, es, st)
}

func canonBranch(origin int64, prefix string, es []ent, st *CanonStats) []byte {
	var b bytes.Buffer
	b.Write(le64(origin))
	var value []byte
	groups := map[byte][]ent{}
	for _, e := range es {
		if e.rem == "" {
			value = e.val
			continue
		}
		groups[e.rem[0]] = append(groups[e.rem[0]], ent{e.rem[1:], e.val})
	}
	for _, c := range []byte("0123456789abcdef") {
		if g, ok := groups[c]; ok {
			b.WriteString(hex.EncodeToString(canonBuild(origin, prefix+string(c), g, st)))
		}
		b.WriteByte(':')
	}
	b.Write(value)
	if st != nil {
		st.Branches++
		if len(value) > 0 {
			st.BranchValues++
		}
	}
	return H256(b.Bytes())
}

// CanonRoot returns the root hash of the canonical trie holding exactly content (path -> value), all nodes
// stamped with origin; nil for empty content.
func CanonRoot(origin int64, content map[string][]byte) []byte {
	return CanonRootStats(origin, content, nil)
}

func CanonRootStats(origin int64, content map[string][]byte, st *CanonStats) []byte {
	ks := make([]string, 0, len(content))
	for k := range content {
		ks = append(ks, k)
	}
	sort.Strings(ks)
	es := make([]ent, 0, len(ks))
	for _, k := range ks {
		es = append(es, ent{k, content[k]})
	}
	return canonBuild(origin, "", es, st)
}

// ---- independent parser of stored node encodings ----
//
//	stored = type(1) ‖ LE64(version) ‖ LE64(origin) ‖ body ; type 2 leaf, 4 branch, 8 extension

type PNode struct {
	Type     byte
	Version  int64
	Origin   int64
	Prefix   string     // leaf
	Path     string     // leaf, extension
	Value    []byte     // leaf, branch
	Children [16][]byte // branch (raw 32-byte hashes)
	Child    []byte     // extension (raw)
	Body     []byte
}

var ErrParse = errors.New("model: cannot parse stored node encoding")

func ParseStored(enc []byte) (*PNode, error) {
	if len(enc) < 17 {
		return nil, ErrParse
	}
	n := &PNode{Type: enc[0]}
	n.Version = int64(binary.LittleEndian.Uint64(enc[1:9]))
	n.Origin = int64(binary.LittleEndian.Uint64(enc[9:17]))
	body := enc[17:]
	n.Body = body
	switch n.Type {
	case 2:
		i := bytes.IndexByte(body, ':')
		if i < 0 {
			return nil, ErrParse
		}
		n.Prefix = string(body[:i])
		rest := body[i+1:]
		j := bytes.IndexByte(rest, ':')
		if j < 0 {
			return nil, ErrParse
		}
		n.Path = string(rest[:j])
		n.Value = append([]byte(nil), rest[j+1:]...)
	case 4:
		rest := body
		for c := 0; c < 16; c++ {
			i := bytes.IndexByte(rest, ':')
			if i < 0 {
				return nil, ErrParse
			}
			if i > 0 {
				k, err := hex.DecodeString(string(rest[:i]))
				if err != nil {
					return nil, ErrParse
				}
				n.Children[c] = k
			}
			rest = rest[i+1:]
		}
		n.Value = append([]byte(nil), rest...)
	case 8:
		i := bytes.IndexByte(body, ':')
		if i < 0 {
			return nil, ErrParse
		}
		n.Path = string(body[:i])
		n.Child = append([]byte(nil), body[i+1:]...)
	default:
		return nil, ErrParse
	}
	return n, nil
}

// Hash recomputes the node hash from the stored encoding: sha3(LE64(origin) ‖ body).
func (n *PNode) Hash() []byte {
	return H256(append(le64(n.Origin), n.Body...))
}

// ReadContent walks stored encodings from root through get (hash -> stored encoding, nil if absent) and
// returns the path->value content and the number of nodes visited.
func ReadContent(root []byte, get func([]byte) []byte) (map[string][]byte, int, error) {
	out := map[string][]byte{}
	n := 0
	var walk func(key []byte, path string) error
	walk = func(key []byte, path string) error {
		enc := get(key)
		if enc == nil {
			return errors.New("model: node " + hex.EncodeToString(key) + " absent at path " + path)
		}
		pn, err := ParseStored(enc)
		if err != nil {
			return err
		}
		if !bytes.Equal(pn.Hash(), key) {
			return errors.New("model: node stored under " + hex.EncodeToString(key) + " hashes to " + hex.EncodeToString(pn.Hash()))
		}
		n++
		switch pn.Type {
		case 2:
			if pn.Prefix != path {
				return errors.New("model: leaf prefix " + pn.Prefix + " differs from its position " + path)
			}
			out[path+pn.Path] = pn.Value
		case 4:
			if len(pn.Value) > 0 {
				out[path] = pn.Value
			}
			for i, c := range pn.Children {
				if c != nil {
					if err := walk(c, path+string("0123456789abcdef"[i])); err != nil {
						return err
					}
				}
			}
		case 8:
			return walk(pn.Child, path+pn.Path)
		}
		return nil
	}
	if len(root) == 0 {
		return out, 0, nil
	}
	err := walk(root, "")
	return out, n, err
}

// ReachSet returns the set of node hashes (as strings of raw bytes) reachable from root through get, following
// stored encodings with the harness' own parser; absent lists reachable-but-absent hashes.
func ReachSet(root []byte, get func([]byte) []byte) (reach map[string]bool, absent [][]byte, err error) {
	reach = map[string]bool{}
	var walk func(key []byte)
	walk = func(key []byte) {
		if reach[string(key)] {
			return
		}
		enc := get(key)
		if enc == nil {
			absent = append(absent, append([]byte(nil), key...))
			return
		}
		reach[string(key)] = true
		pn, perr := ParseStored(enc)
		if perr != nil {
			err = perr
			return
		}
		switch pn.Type {
		case 4:
			for _, c := range pn.Children {
				if c != nil {
					walk(c)
				}
			}
		case 8:
			walk(pn.Child)
		}
	}
	if len(root) > 0 {
		walk(root)
	}
	return
}
