#!/bin/bash
# tools/seed_batch.sh <PROP> <IDs to check...> : import both patches of /tmp/wt/<PROP> and run the given checks against each
P="$1"; shift
for i in 1 2; do
  sid="$P-$( [ $i = 1 ] && echo a || echo b )"
  /verif/tools/import_seed.sh /tmp/wt/$P $i $sid $P || continue
  /verif/tools/try_patch.sh /verif/seeded/$sid/patch.diff "$@" 2>&1 | grep -E "exit=|signature" | cut -c1-260
done
git -C /repo worktree remove --force /tmp/wt/$P/repo 2>/dev/null; rm -rf /tmp/wt/$P
