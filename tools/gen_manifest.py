#!/usr/bin/env python3
"""Regenerates /verif/MANIFEST.json from the table below (one row per property that has a check)."""
import json, os, subprocess
ROOT = os.path.dirname(os.path.dirname(os.path.abspath(__file__)))

# id -> (category, technique, level text, level note, design section)
CHECKS = {}
def add(id, cat, tech, text, note):
    CHECKS[id] = dict(cat=cat, tech=tech, text=text, note=note)

exec(open(os.path.join(ROOT, "tools", "manifest_rows.py")).read())

props = [json.loads(l) for l in open(os.path.join(ROOT, "properties.jsonl"))]
checks, na = [], []
for p in props:
    id = p["id"]
    if id in CHECKS:
        c = CHECKS[id]
        checks.append({
            "property_id": id,
            "quick_cmd": f"./check {id} quick",
            "thorough_cmd": f"./check {id} thorough",
            "evidence_file": f"/verif/evidence/{id}.json",
            "replay_cmd_template": f"./check {id} --replay {{path}}",
            "engine": "vcheck",
            "level_claimed": {"category": c["cat"], "text": c["text"], "design_ref": f"DESIGN.md §6 {id}"},
            "level_note": c["note"],
            "technique": c["tech"],
        })
    else:
        na.append({"property_id": id, "reason": NA.get(id, "monitor not built yet in this round (planned, see DESIGN.md §6)")})
hooks_commits = HOOK_COMMITS
m = {
    "version": 1,
    "setup_cmd": "./check --build",
    "hooks": {
        "guard": "verif",
        "enable": "go build -tags verif (the harness module /verif/harness replaces github.com/0chain/common => /repo and builds it with the tag)",
        "baseline_off_cmd": "cd /repo && GOFLAGS=-mod=mod GOPROXY=off GOSUMDB=off go test -vet=off -count=1 ./core/logging/... ./core/statecache/... ./core/util/wmpt/...",
        "source_commits": hooks_commits,
        "add_only": True,
    },
    "engines": [{
        "name": "vcheck",
        "path": "/verif/harness",
        "serves_properties": sorted(CHECKS),
        "kind_free_text": "Go runtime-monitoring harness: seeded workloads sharded over worker processes drive the real /repo code; reference-model oracles, structural invariant walks, crash-point replay over interposed storage, a cooperative scheduler on the verif yield hook, porcupine linearizability checking and the Go race detector decide; evidence and replay files are written by the driver",
    }],
    "checks": checks,
    "notes": NOTES,
    "not_applicable": na,
}
json.dump(m, open(os.path.join(ROOT, "MANIFEST.json"), "w"), indent=1)
print("checks:", len(checks), "not_applicable:", len(na))
