#!/bin/bash
# tools/mk_wt.sh <name> : scratch git worktree of /repo HEAD plus a demo module for a mutation sub-agent (nothing from /verif)
N="$1"; D=/tmp/wt/$N
rm -rf "$D"; mkdir -p "$D"
git -C /repo worktree prune
git -C /repo worktree add --detach "$D/repo" HEAD -q || exit 1
mkdir -p "$D/demo" && cp /tmp/demo-template/demo_test.go /tmp/demo-template/go.sum "$D/demo/"
sed "s#WORKTREE#$D/repo#" /tmp/demo-template/go.mod > "$D/demo/go.mod"
echo "$D"
