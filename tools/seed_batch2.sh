#!/bin/bash
# tools/seed_batch2.sh <PROP> <IDs to check...> : second wave: import both patches of /tmp/wt/<PROP>w2 as <PROP>-c/-d, run checks non-intrusively
P="$1"; shift
for i in 1 2; do
  sid="$P-$( [ $i = 1 ] && echo c || echo d )"
  flags=$(head -1 /tmp/wt/${P}w2/out/demo${i}_test.go 2>/dev/null | sed -n 's#^// demo flags: *##p')
  DEMOFLAGS="${DEMOFLAGS:-$flags}" /verif/tools/import_seed.sh /tmp/wt/${P}w2 $i $sid $P || { KEEP=1; continue; }
  /verif/tools/mutrun.sh /verif/seeded/$sid/patch.diff "$@" 2>&1 | grep -E "exit=|signature" | cut -c1-260
done
[ -n "${KEEP:-}" ] && { echo "kept /tmp/wt/${P}w2 for inspection (an import was rejected)"; exit 0; }
git -C /repo worktree remove --force /tmp/wt/${P}w2/repo 2>/dev/null; rm -rf /tmp/wt/${P}w2
