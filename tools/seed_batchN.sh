#!/bin/bash
# tools/seed_batchN.sh <wave> <PROP> <IDs to check...> : import both patches of /tmp/wt/<PROP>w<wave> (ids: wave 2 -> c/d, 3 -> e/f, 4 -> g/h),
# confirm them independently and run the given quick checks non-intrusively (tools/mutrun.sh)
WV="$1"; P="$2"; shift 2
L=(x x "c d" "e f" "g h" "i j" "k l" "m n" "o p" "q r")
set -- $P "$@"; P=$1; shift
read A B <<<"${L[$WV]}"
KEEP=
for i in 1 2; do
  sid="$P-$( [ $i = 1 ] && echo $A || echo $B )"
  flags=$(head -1 /tmp/wt/${P}w$WV/out/demo${i}_test.go 2>/dev/null | sed -n 's#^// demo flags: *##p')
  DEMOFLAGS="$flags" /verif/tools/import_seed.sh /tmp/wt/${P}w$WV $i $sid $P || { KEEP=1; continue; }
  /verif/tools/mutrun.sh /verif/seeded/$sid/patch.diff "$@" 2>&1 | grep -E "exit=|signature" | cut -c1-260
done
[ -n "$KEEP" ] && { echo "kept /tmp/wt/${P}w$WV for inspection (an import was rejected)"; exit 0; }
git -C /repo worktree remove --force /tmp/wt/${P}w$WV/repo 2>/dev/null; rm -rf /tmp/wt/${P}w$WV
