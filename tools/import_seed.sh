#!/bin/bash
# tools/import_seed.sh <agent-dir> <i> <seed-id> <PROP> : independently confirm a sub-agent's seeded change and keep it under /verif/seeded/<seed-id>/
# confirms: patch applies to /repo HEAD, repo still compiles, pinned suite still passes with it, demo fails with it and passes without it.
set -u
A="$1"; I="$2"; SID="$3"; PROP="$4"
export GOFLAGS=-mod=mod GOPROXY=off GOSUMDB=off GOTOOLCHAIN=local
V=/tmp/wt/verify-$SID; rm -rf $V; mkdir -p $V
git -C /repo worktree prune
git -C /repo worktree add --detach $V/repo HEAD -q || exit 2
cleanup() { git -C /repo worktree remove --force $V/repo 2>/dev/null; rm -rf $V; }
trap cleanup EXIT
mkdir -p $V/demo && cp /tmp/demo-template/go.sum $V/demo/ && sed "s#WORKTREE#$V/repo#" /tmp/demo-template/go.mod > $V/demo/go.mod
cp /tmp/demo-template/demo_test.go $V/demo/; cp "$A/out/demo${I}_test.go" $V/demo/
rundemo() { (cd $V/demo && timeout 600 go test -count=1 ${DEMOFLAGS:-} ./... >$V/demo.out 2>&1; echo $?); }
r0=$(rundemo)
if [ "$r0" != 0 ]; then echo "REJECT: demo fails on the unmodified tree"; tail -5 $V/demo.out; exit 1; fi
(cd $V/repo && git apply "$A/out/patch${I}.diff") || { echo "REJECT: patch does not apply to /repo HEAD"; exit 1; }
r1=$(rundemo)
if [ "$r1" = 0 ]; then echo "REJECT: demo passes with the change"; exit 1; fi
demofail=$(grep -m3 -E '^(--- FAIL|panic|FAIL|WARNING: DATA RACE)' $V/demo.out | tr '\n' ' ' | cut -c1-200)
/verif/tools/baseline.sh $V/repo > $V/base.out 2>&1 || { echo "REJECT: pinned suite does not pass with the change"; cat $V/base.out; exit 1; }
(cd $V/demo && go vet ./... >/dev/null 2>&1) ; (cd $V/repo && go build ./core/statecache/... ./core/logging/... ./core/currency/... ./core/util/wmpt/... ) || { echo "REJECT: does not compile"; exit 1; }
D=/verif/seeded/$SID; mkdir -p $D
cp "$A/out/patch${I}.diff" $D/patch.diff; cp "$A/out/demo${I}_test.go" $D/demo_test.go; cp "$A/out/note${I}.md" $D/note.md 2>/dev/null
python3 - "$D" "$PROP" "$SID" "$demofail" "${DEMOFLAGS:-}" <<'PY'
import json,sys
d,prop,sid,fail,flags=sys.argv[1:6]
note=open(d+'/note.md').read() if __import__('os').path.exists(d+'/note.md') else ''
json.dump({"id":sid,"property":prop,"origin":"independent sub-agent given only the property text and a scratch worktree","needs_to_manifest":note.strip()[:1500],
 "confirmed":{"patch_applies_to_repo_head":True,"pinned_suite_passes_with_change":"54/54 (tools/baseline.sh on a scratch worktree)","demo_without_change":"pass","demo_with_change":"fail: "+fail,"demo_cmd":"go test -count=1 "+flags+" (demo module with replace => scratch worktree, grocksdb stub)"},
 "detected_by":"(filled in after running the checks)"},open(d+'/meta.json','w'),indent=1)
PY
echo "KEPT $SID ($PROP): demo with change -> $demofail"
