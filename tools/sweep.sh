#!/bin/bash
# tools/sweep.sh "<seeds>" [tier] [ids...] : run checks on the current tree at several VERIF_SEED values; prints one line per run.
# Evidence files are restored to the committed ones afterwards (evidence must come from seed-default runs).
SEEDS="${1:-2 3}"; TIER="${2:-quick}"; shift 2 2>/dev/null
IDS="$@"; [ -z "$IDS" ] && IDS=$(jq -r '.checks[].property_id' /verif/MANIFEST.json)
cd /verif
mkdir -p /var/tmp/verif-ev-sweep && cp -a evidence/. /var/tmp/verif-ev-sweep/
for s in $SEEDS; do for id in $IDS; do
  out=$(VERIF_SEED=$s ./check $id $TIER 2>&1); rc=$?
  echo "seed=$s $id exit=$rc $(echo "$out" | head -1 | cut -c1-140)"
  [ $rc != 0 ] && echo "$out" | grep -E "^(VIOLATION|INCONCLUSIVE)|signature" | head -6 | cut -c1-300
done; done
cp -a /var/tmp/verif-ev-sweep/. evidence/; rm -rf /var/tmp/verif-ev-sweep
