#!/usr/bin/env python3
# tools/mk_prompt.py <PROP> <wave> : writes /tmp/wt/prompt-<PROP>w<wave>.txt for a mutation sub-agent.
# The prompt holds the property text, the environment facts, and one-line titles of the changes already kept for
# the property (taken from the earlier agents' own notes) so that a later wave looks elsewhere. Nothing of the
# checks themselves is given.
import sys, os, glob, re
prop, wave = sys.argv[1], sys.argv[2]
ident = f"{prop}w{wave}"
tmpl = open('/tmp/wt/PROMPT.tmpl').read()
ptxt = open(f'/tmp/wt/prop-{prop}.txt').read().strip()
titles = []
for d in sorted(glob.glob(f'/verif/seeded/{prop}-*')):
    n = os.path.join(d, 'note.md')
    if not os.path.exists(n):
        continue
    lines = [l.strip() for l in open(n).read().splitlines() if l.strip()]
    t = re.sub(r'^#+\s*', '', lines[0])[:160] if lines else ''
    f = next((l for l in lines[1:4] if 'core/' in l), '')[:140]
    titles.append(f"{t} [{f}]")
extra = f"""- IMPORTANT: the template file demo/demo_test.go (which sets logging.Logger in init) will always be present next to your demo file; each of your demo files must compile and pass on the unmodified tree when it is the ONLY other test file in that directory (do not share helpers between demo1_test.go and demo2_test.go; use distinct name prefixes).
- Keep every file you write and every single response SHORT: demos under 150 lines, no long pasted outputs (pipe test output through `tail -5`). Write notes last.
- This is round {wave}: {len(titles)} seeded changes for this property already exist and are all detected by an existing monitoring harness that runs randomized model-based workloads with reference models and crash/schedule exploration. Yours must use DIFFERENT sites and mechanisms. Look in places the earlier rounds did not touch: helpers and lower layers the property's mechanism depends on (node stores and their layering, clone/encode/decode helpers, hashing/memo fields, change collectors, batch/commit plumbing, locks, capacity/eviction arithmetic), state carried across calls (a memo or buffer that is reused, a flag not reset on an error path), and behaviour that differs by configuration (store type, collapse level, version/origin, debug switches, sizes at or just past a threshold). The damage may be silent and surface only later or through a different API.""" + (""" In this round prefer the API boundary and failure handling: arguments or results that alias internal state (buffers, slices, node objects, maps handed in or out), objects re-used after Commit/Rollback/Close/Save, error paths and early returns that leave partial state behind or skip a cleanup, retries after a failed call, two entry points that are rarely combined (e.g. sync + merge, snapshot + update, commit + concurrent read through another handle), and boundary values of counters/capacities.""" if int(wave) == 5 else "") + (""" In this round prefer order and repetition: the same call made twice or in an unusual order (Commit/Save/Prune/Rollback/garbage collection/merge repeated, skipped, or issued on an empty or unchanged object), long-lived objects used across many rounds or versions, the interplay of two subsystems (node cache inside the trie, change collector and layered stores, pruning and saving, snapshots and live updates, loggers derived from loggers), and exact boundaries (a count that equals a capacity or batch size, the first and last element, version 0 or very large versions).""" if int(wave) == 6 else "") + (""" In this round prefer shared plumbing and contracts: helpers used by several mechanisms (hashing, hex/nibble conversion, clone/copy helpers, error values and how callers match them with errors.Is or ==, constants such as batch sizes, capacities and size limits), return values and error codes of rarely failing calls that are ignored or swallowed, conditions that are almost always true (so the else branch is almost never run), and behaviour that depends on object identity rather than value (pointer comparison, map keys built from slices, shared zero values).""" if int(wave) == 7 else "") + (""" In this round prefer edge shapes and conversions: code taken only for empty, single-element or maximal inputs, nil versus empty slices and zero values, conversions between representations (hex / bytes / strings, nibbles / bytes, signed / unsigned, msgpack / cbor encodings), loops whose first or last iteration is special, and whether an object is still usable after one of its calls returned an error.""" if int(wave) == 8 else "") + (""" In this round prefer performance shortcuts and hidden sharing: caches, memo fields, pooled or re-used buffers, batching, fast paths and early exits added because 'the common case does not need the full work' - a shortcut whose precondition is almost always true; and state shared between objects that look independent (two tries on one store, a view and its source, two objects from one constructor, loggers derived from one core, a result that aliases an argument).""" if int(wave) >= 9 else "") + """ Existing ones: """ + " || ".join(f"({i+1}) {t}" for i, t in enumerate(titles)) + "\n"
s = tmpl.replace('@PROP@', ptxt).replace('@ID@', ident)
marker = "The property under study:"
s = s.replace(marker, extra + "\n" + marker, 1)
open(f'/tmp/wt/prompt-{ident}.txt', 'w').write(s)
print(f'/tmp/wt/prompt-{ident}.txt', len(s))
