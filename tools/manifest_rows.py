# rows of the manifest; exec'd by gen_manifest.py
HOOK_COMMITS = []
NA = {}
NOTES = ("All checks: ./check <ID> <quick|thorough>; VERIF_SEED selects the seed-determined case list (default 1). "
         "Exit 0 held / 1 violated (VIOLATION line + replay file) / 2 inconclusive (never on the unchanged tree). "
         "known_findings.json lists open findings (printed as KNOWN-FINDING) and fixed ones (suppress nothing).")

add("C19", "exploration", "runtime monitor: independent reference root + independent path verifier over every (n, index), exhaustive in n<=N",
    "Every leaf count n<=1024 (quick) / 4096 (thorough) and every leaf index is executed against the real MerkleTree; an independent root/verify implementation is the oracle; held = no contradiction on those executions (exhaustive in n and index, sampled in leaf values).",
    "Trusts x/crypto sha3; leaf hashes are distinct 64-hex strings; does not range over all leaf values.")

add("C18", "exploration", "runtime monitor: math/big and IEEE reference oracle over exhaustive boundary-pair table plus seeded random operands",
    "Every exported currency helper is executed on the exhaustive B x B boundary table (B ~290 values), on products that are multiples of 2^64, on millions of random pairs/floats/decimal amounts and compared with exact big-number / IEEE-truncation / shortest-decimal references; panics are caught and reported. Held = no disagreement on the evaluations listed in the evidence.",
    "Trusts math/big, strconv shortest formatting and big.Rat parsing; boundary table exhaustive, remainder sampled from the seed.")

add("C01", "exploration", "runtime monitor: Go-map reference model checked after every operation of seeded histories on four store configurations",
    "16 000 (quick) / 640 000 (thorough) generated histories drive the real MerklePatriciaTrie on memory, layered and persistent (stub-backed PNodeDB) stores; after every operation all live and ~20 related absent paths are looked up and a full Iterate is compared with a map model; panics are violations. Coverage floors require every path-termination class (where the path ends relative to leaf/branch/extension boundaries) to be hit for insert and delete.",
    "Persistent store = real PNodeDB over the pure-Go grocksdb stand-in; path alphabet is structure-seeking, not uniform.")
add("C02", "exploration", "runtime monitor: independent canonical-trie hasher + six histories per content + own decoder read-back",
    "For 12 800 (quick) / 320 000 (thorough) contents, six different operation histories ending in the same content are executed at a fixed version; the root after every operation must equal an independent implementation of the node-hash format applied to the canonical trie of the model content; stored encodings are read back with the harness' own parser; root->content injectivity is checked per worker.",
    "The reference hasher encodes the format as read from the pinned code (sha3-256 over LE64(origin)‖body); it shares no code with /repo.")

add("C03", "exploration", "runtime monitor: map models per trie + byte-identical observation tuples of bystander tries + pending-change integrity, over generated block histories",
    "40 000 (quick) / 800 000 (thorough) block histories with several concurrently open children, grandchildren, merges, discards and stale merges; after each step the observation tuple (root, content, pending changes with encodings, deletes) of every uninvolved trie must be byte-identical, child views must equal the model, stale merges must be rejected, and every pending change must re-hash to its key and equal the stored node.",
    "Observation uses the public API (GetChanges/Iterate/Encode) plus the harness' own parser; stale children's views are not judged after their parent moved on.")

add("C04", "fault_enumeration", "runtime monitor with exhaustive crash-point replay: every prefix of each save's physical write stream on an interposed store, plus model read-back of all retained roots",
    "2 400 (quick) / 48 000 (thorough) multi-round histories run the real trie + change collector + PNodeDB against a write-logging, crash-injecting stand-in for RocksDB. After each save all retained roots are re-read on a re-opened store; for every prefix of the save's write stream the round is re-executed with a crash at that point, earlier roots must stay complete and re-execution must reproduce root and content. Exhaustive in crash points per history, sampled in histories.",
    "RocksDB is replaced by a pure-Go sorted KV stand-in with atomic batches and crash-after-N-writes (the cgo binding cannot link here); PNodeDB, the collector and the trie are the real code.")
add("C05", "fault_enumeration", "runtime monitor: dead-set vs reachability oracle over raw stored bytes, prune write-log subset check, exhaustive crash-point replay of each prune",
    "3 200 (quick) / 48 000 (thorough) histories; after every round all dead sets reported so far are intersected with the node set reachable from the new root (must be empty); every prune's physical deletes must be a subset of the dead sets recorded below the prune version, records below are gone and the others remain, retained roots stay readable; every prefix of each prune's write stream is replayed as a crash followed by restart and re-run.",
    "Same storage stand-in as C04; reachability is computed by the harness' own parser of the stored encodings.")

add("C14", "exploration", "runtime monitor: structural sweep of every store level at quiescent points with an independent parser/hasher and decode-encode round trip",
    "9 600 (quick) / 240 000 (thorough) histories (direct and multi-round, separator-heavy values, version bumps) on memory, layered and persistent stores; every node of every level is swept: key == own hash == hash recomputed from the stored bytes by the harness; CreateNode(enc) keeps hash and bytes; roots re-compute bottom-up from stored bytes to the model content.",
    "Covers the node kinds that histories produce (counted in the evidence); hash format as read from the pinned code.")
add("C17", "exploration", "runtime monitor: harness-computed frontier/blocked-path oracle over systematic node removals, donor snapshot comparison around MergeDB",
    "4 800 (quick) / 120 000 (thorough) tries built over 1-4 versions; for every single non-root node (<=24), subtrees and scattered subsets the damaged copy must report exactly the frontier, fail exactly the blocked lookups with ErrNodeNotFound, never yield wrong data, and after MergeDB from a donor store read the full content with the same root while the donor's key->encoding snapshot is unchanged.",
    "Single-node removals exhaustive per trie (up to 24 nodes), other subsets sampled; donor is a MemoryNodeDB.")

add("C06", "exploration", "runtime monitor: independent block-tree model (unique token per write) judging every lookup through all four cache entry points over generated block trees",
    "96 000 (quick) / 1 600 000 (thorough) random block trees with forks, gaps, abandoned blocks/transactions, out-of-order commits and interleaved lookups at tips, old blocks and siblings, plus hot-key chains up to 2 600 blocks; every lookup result is either a miss or exactly the model's value, a final sweep reads every (key, block).",
    "Model skips uncommitted blocks (their writes are private), so {miss, nearest committed write} is legal; wrong hits on keys with >200 cache entries are the known finding per-key-version-overflow.")
add("C07", "exploration", "runtime monitor: block-tree model with visibility and must-hit rules, mutable values scribbled by the harness after every set and get",
    "64 000 (quick) / 1 200 000 (thorough) block trees with mutable value types (byte slice with deep Clone; leaf, branch, extension and value trie nodes); the harness overwrites every object it hands in or receives; lookups must miss for uncommitted foreign writes, must hit with the original logical content for own entries and for committed writes on a fully committed chain within capacity.",
    "Must-hit assertions only an order of magnitude below the cache capacities (<100 versions per key, <1000 commits).")

HOOK_COMMITS[:] = ["0496db9", "af87284"]
add("C08", "exploration", "runtime monitor: cooperative scheduler on the verif yield hook (bounded-preemption enumeration + random + PCT schedules) and free-running stress under the Go race detector, judged by the block-tree oracle",
    "Mode A drives 8 commit-vs-lookup scenarios through every schedule with at most 3 (quick) / 4 (thorough) preemptions plus tens of thousands of random and PCT schedules at the granularity of single shared-map accesses; mode B runs 120 (quick) / 1 500 (thorough) multi-committer/multi-reader executions with hook-injected delays in the -race binary. Every hit must equal the tree-determined value, post-commit lookups must hit, a quiescent sweep follows every schedule; race reports are violations.",
    "Schedule granularity is that of the hook's yield points; one committer at a time in mode A; race freedom only for interleavings that occurred.")

add("C09", "exploration", "runtime monitor: (key -> value, weight) model with an independent reference hasher; total weight after every step, root/owner/proof of every block after every commit, GC pass and reload",
    "16 000 (quick) / 400 000 (thorough) histories of updates, overwrites, deletes, commits at collapse levels 0-5, GC passes and reloads over keys sharing nibble prefixes of every length; after every commit, GC pass and reload every block 1..W is proven and compared with the model owner and an independent root computation; every 50th history runs on real pebble.",
    "Weight is a function of the value; GC and reload are issued only on a clean trie (dirty-trie GC is C11's subject).")
add("C10", "exploration", "runtime monitor: honest proofs of every block verified against the reference root; structured tampering classes T1-T8 replayed against VerifyBlockProof with a forged-value oracle and a classifier for the known weakness",
    "1 280 (quick) / 48 000 (thorough) tries; honest half checks every block; adversarial half submits about 5 million (quick) tampered proofs (re-weighting, sibling swaps, substitution from other blocks/positions/tries, drop/dup/reorder/truncate, field edits, type confusion, bit flips, splices); a violation is a forged proof that verifies to the trusted root with a wrong value.",
    "Structured tamperings and random edits only, not all byte strings; sum-preserving re-weightings are the known finding reweight-sum-preserving.")

add("C11", "fault_enumeration", "runtime monitor: store snapshot after every physical storage operation (exhaustive crash points per history) + reopen-from-(hash, weight) observational check + canonical-node presence",
    "64 000 (quick) / 1 600 000 (thorough) histories in four scenario classes (clean-GC, dirty-GC, shared content, Root() reads while dirty); after every storage operation the last durably committed root is reopened on a copy of the store and compared block by block with the model, and every canonical node hash must be present; every 200th class-A history also runs on real pebble.",
    "Storage model: completed operations durable, batches atomic; shared-content losses are the open known finding gc-shared-content (classifier: all missing hashes were shared at supersession time).")
add("C12", "exploration", "runtime monitor: mirrored source/partial trie pair compared (root, weight, error outcome) with each other and with the reference hasher after import and after every operation; race build",
    "19 200 (quick) / 480 000 (thorough) cases enumerating root shape x requested-set size (both sides of the >10 parallel path) x in-memory/collapsed source, followed by 1-10 mirrored updates/deletes of requested keys; run in the -race binary so the parallel marker is watched by the race detector.",
    "Follow-up operations touch requested keys only; in-memory sources are finalised through Root() first.")
add("C13", "exploration", "runtime monitor: checkpoint model + storage key-set differences (S0/S1/S2 from the logging adapter) + reopen check around both rollback entry points",
    "24 000 (quick) / 400 000 (thorough) checkpoint/commit/rollback histories with every change kind (new, changed, unchanged re-write, delete-and-re-add, delete), optional GC passes, both Rollback and RollbackTrie; root, weight, full observational check on the live and a reopened trie, no node created only by the rolled-back commit survives; two GC passes after the rollback in a quarter of the cases.",
    "At most one GC pass between commit and rollback (property's domain).")

add("C15", "exploration", "runtime monitor: mutation-based decoder stress from run-time harvested real encodings, panic/fatal/stall oracle with the input written to disk before every call",
    "480 (quick) / 12 800 (thorough) cases, about 3.3 million (quick) derived inputs through CreateNode, DeserializeNode, Deserialize and VerifyBlockProof: exhaustive truncations and first-byte values, separator removal, CBOR head inflation, blob lengths 0..80/0..140, 0..20 children, nil/foreign elements, crafted CBOR, bit flips, random bytes; accepted inputs are re-encoded; panics are violations, worker deaths and 60 s stalls are reported with the on-disk input.",
    "Near-valid derivations and random strings up to 64 KiB, not all byte strings; stall threshold 60 s for calls that normally take microseconds.")

add("C16", "exploration", "runtime monitor: client-boundary history recording + offline porcupine linearizability check against a map model whose root reads must equal the canonical root; reader-only runs vs sequential results; Go race detector",
    "4 800 (quick) / 150 000 (thorough) small concurrent histories (3-6 goroutines, structurally colliding paths, store-level schedule perturbation, GOMAXPROCS 1-16) each checked by porcupine (timeout = inconclusive), plus 200 / 6 000 reader-only runs on tries with missing nodes; all in the -race binary, every distinct race report is a violation.",
    "Small histories, many of them; linearizability is judged per history by porcupine v1.3.0; races only on interleavings that occurred.")
add("C20", "exploration", "runtime monitor: write-sequence model of the ring buffer (exact newest-first snapshot) for sequential histories; suffix/distinctness/order invariants for concurrent histories; Go race detector",
    "4 800 (quick) / 96 000 (thorough) sequential histories with loggers derived before, during and after wrap, totals around every capacity boundary, exact snapshot comparison and WriteLogs order; 200 / 4 000 concurrent runs in the -race binary with quiescent and in-flight snapshot invariants.",
    "Capacity from logging.BufferSize; in-flight snapshots are only required to be duplicate-free, made of written ids and per-writer newest-first.")
