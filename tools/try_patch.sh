#!/bin/bash
# tools/try_patch.sh <patch.diff> <ID> [ID...] : apply a patch to /repo, run the quick checks, always restore /repo.
# Prints one line per check: <ID> exit=<code> <first line>. Evidence files are restored afterwards.
P="$(realpath "$1")"; shift
cd /repo || exit 2
if ! git diff --quiet; then echo "/repo has uncommitted changes"; exit 2; fi
git apply "$P" || { echo "patch does not apply"; exit 2; }
trap 'git -C /repo checkout -- . ; git -C /repo clean -fdq' EXIT
cd /verif
mkdir -p /var/tmp/verif-ev-bak && cp -a evidence/. /var/tmp/verif-ev-bak/ 2>/dev/null
for id in "$@"; do
  out=$(VERIF_SEED=${VERIF_SEED:-1} ./check "$id" ${TIER:-quick} 2>&1); rc=$?
  echo "$id exit=$rc $(echo "$out" | head -1 | cut -c1-160)"
  echo "$out" | grep -A1 '^VIOLATION' | head -4 | cut -c1-300
  echo "$out" | grep '^INCONCLUSIVE' | head -3 | cut -c1-200
  rm -rf "replays/$id"
done
cp -a /var/tmp/verif-ev-bak/. evidence/ ; rm -rf /var/tmp/verif-ev-bak
