#!/bin/bash
# tools/mutrun.sh <patch.diff> <ID> [ID...] : run quick checks of the COMMITTED /verif against a scratch worktree of /repo HEAD
# with the patch applied. Neither /repo nor /verif is touched (usable in the background). Prints like try_patch.sh.
# (The documented procedure - apply to /repo, run, restore - is tools/try_patch.sh; this is the non-intrusive equivalent.)
P="$(realpath "$1")"; shift
W=/var/tmp/verif-mut-$$; rm -rf $W; mkdir -p $W/verif
trap 'git -C /repo worktree remove --force $W/repo 2>/dev/null; rm -rf $W; git -C /repo worktree prune' EXIT
git -C /repo worktree add --detach $W/repo HEAD -q || exit 2
(cd $W/repo && git apply "$P") || { echo "patch does not apply"; exit 2; }
git -C /verif archive HEAD | tar x -C $W/verif
sed -i "s#=> /repo#=> $W/repo#" $W/verif/harness/go.mod
cd $W/verif
for id in "$@"; do
  out=$(VERIF_SEED=${VERIF_SEED:-1} ./check "$id" ${TIER:-quick} 2>&1); rc=$?
  echo "$id exit=$rc $(echo "$out" | head -1 | cut -c1-160)"
  echo "$out" | grep -A1 '^VIOLATION' | grep -v '^--' | head -4 | cut -c1-300
  echo "$out" | grep '^INCONCLUSIVE' | head -3 | cut -c1-200
done
