#!/bin/bash
# runs the pinned suite with the verif tag OFF and checks that the 54 stable-pass tests of BASELINE.json pass
export GOFLAGS=-mod=mod GOPROXY=off GOSUMDB=off GOTOOLCHAIN=local
REPO="${1:-/repo}"
cd "$REPO" && go test -json -vet=off -count=1 -timeout 25m ./... 2>/dev/null > /var/tmp/verif-baseline.$$.json
python3 - /var/tmp/verif-baseline.$$.json <<'PY'
import json,sys
want=set(json.load(open('/root/.vp/BASELINE.json'))['stable_pass'])
got={}
for l in open(sys.argv[1]):
    try: e=json.loads(l)
    except: continue
    if e.get('Test') and e.get('Action') in('pass','fail','skip'):
        got[e['Package']+'::'+e['Test']]=e['Action']
missing=[t for t in sorted(want) if got.get(t)!='pass']
print('baseline: %d/%d stable tests pass'%(len(want)-len(missing),len(want)))
for t in missing: print('  NOT PASSING:',t,got.get(t))
sys.exit(1 if missing else 0)
PY
rc=$?; rm -f /var/tmp/verif-baseline.$$.json; exit $rc
