#!/usr/bin/env python3
# tools/rows_from_batch.py <batch-log> [override-log ...] : fills seeded/<id>/meta.json "detected_by" and the rows of
# seeded/RESULTS.md for the seeded changes a batch driver (tools/seed_batchN.sh) already ran the quick checks against,
# instead of running them a second time. Override logs hold later re-runs ("== <id>" header, then mutrun output).
import json, re, sys, os
ROOT = "/verif"
def parse(path, header):
    res, first, cur_id, cur = {}, {}, None, None
    for line in open(path, errors="replace"):
        m = header.match(line)
        if m:
            cur_id = m.group(1); res.setdefault(cur_id, {}); first.setdefault(cur_id, {}); continue
        m = re.match(r"^(C\d+) exit=(\d+)\b", line)
        if m and cur_id:
            cur = m.group(1); res[cur_id][cur] = int(m.group(2)); continue
        m = re.match(r"^\s+signature=(\S*|\".*?\") case=(-?\d+): (.*)", line)
        if m and cur_id and cur and cur not in first[cur_id]:
            first[cur_id][cur] = m.group(3)[:160]
    return res, first
res, first = parse(sys.argv[1], re.compile(r"^KEPT (C\d+-\w+) "))
for o in sys.argv[2:]:
    r2, f2 = parse(o, re.compile(r"^== (C\d+-\w+)"))
    for sid in r2:
        for c, v in r2[sid].items():
            res.setdefault(sid, {})[c] = v
            first.setdefault(sid, {}).pop(c, None)
            if c in f2[sid]: first[sid][c] = f2[sid][c]
path = ROOT + "/seeded/RESULTS.md"
lines = open(path).read().splitlines(True)
rows = {}
for l in lines:
    m = re.match(r"^\| (C\d+-\w+) \|", l)
    if m: rows[m.group(1)] = l
for sid in sorted(res):
    d = f"{ROOT}/seeded/{sid}"
    if not os.path.exists(d + "/meta.json"): continue
    meta = json.load(open(d + "/meta.json")); prop = meta["property"]
    checks = [prop] + [c for c in res[sid] if c != prop]
    det = [c for c in checks if res[sid].get(c) == 1]
    meta["detected_by"] = {"quick_checks_run": checks, "exit_codes": res[sid], "detected_by": det, "first_violation": {c: first[sid].get(c, "") for c in det}, "seed": 1}
    json.dump(meta, open(d + "/meta.json", "w"), indent=1)
    note = open(d + "/note.md").read().strip().splitlines() if os.path.exists(d + "/note.md") else [""]
    summary = next((l.strip("# *-") for l in note if l.strip()), "")[:110]
    r = (sid, prop, summary, ", ".join(f"{c}:{'VIOLATED' if res[sid].get(c)==1 else 'held'}" for c in checks), first[sid].get(prop, "")[:120])
    rows[sid] = "| %s | %s | %s | %s | %s |\n" % tuple(x.replace("|", "/") for x in r)
    print(sid, r[3])
head = [l for l in lines if not re.match(r"^\| C\d+-\w+ \|", l)]
# keep the header block (everything up to and including the table header), then the sorted rows, then the trailer
idx = max(i for i, l in enumerate(head) if l.startswith("|---")) if any(l.startswith("|---") for l in head) else len(head) - 1
with open(path, "w") as f:
    f.writelines(head[: idx + 1]); f.writelines(rows[k] for k in sorted(rows)); f.writelines(head[idx + 1 :])
