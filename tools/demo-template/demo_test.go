package demo

import (
	"testing"

	"github.com/0chain/common/core/logging"
	"github.com/0chain/common/core/statecache"
	"github.com/0chain/common/core/util"
	"go.uber.org/zap"
)

func init() { logging.Logger = zap.NewNop() } // the trie logs through logging.Logger, which is nil by default

type val struct{ b []byte }

func (v *val) MarshalMsg([]byte) ([]byte, error)     { return append([]byte(nil), v.b...), nil }
func (v *val) UnmarshalMsg(b []byte) ([]byte, error) { v.b = append([]byte(nil), b...); return nil, nil }

func TestTemplate(t *testing.T) {
	m := util.NewMerklePatriciaTrie(util.NewMemoryNodeDB(), 1, nil, statecache.NewEmpty())
	if _, err := m.Insert(util.Path("0a0b"), &val{[]byte("x")}); err != nil {
		t.Fatal(err)
	}
	p, err := util.NewPNodeDB("/any/name", "") // in-memory stand-in: the name is just a key
	if err != nil {
		t.Fatal(err)
	}
	_ = p
}
