// Package grocksdb is a pure-Go in-memory stand-in for github.com/linxGnu/grocksdb
// exposing exactly the API surface used by 0chain/common core/util.
package grocksdb

import (
	"errors"
	"sort"
	"sync"
)

type CompressionType uint

const (
	NoCompression  = CompressionType(0)
	LZ4Compression = CompressionType(4)
)

type Options struct{}

func NewDefaultOptions() *Options                                  { return &Options{} }
func (o *Options) SetCreateIfMissing(bool)                        {}
func (o *Options) SetCompression(CompressionType)                 {}
func (o *Options) SetCreateIfMissingColumnFamilies(bool)          {}
func (o *Options) OptimizeUniversalStyleCompaction(uint64)        {}
func (o *Options) SetAllowMmapReads(bool)                         {}
func (o *Options) SetPrefixExtractor(SliceTransform)              {}
func (o *Options) SetPlainTableFactory(uint32, int, float64, uint) {}
func (o *Options) OptimizeForPointLookup(uint64)                  {}
func (o *Options) SetMaxBackgroundJobs(int)                       {}
func (o *Options) SetMaxWriteBufferNumber(int)                    {}
func (o *Options) SetWriteBufferSize(uint64)                      {}
func (o *Options) SetMinWriteBufferNumberToMerge(int)             {}
func (o *Options) IncreaseParallelism(int)                        {}
func (o *Options) SetDbLogDir(string)                             {}
func (o *Options) EnableStatistics()                              {}
func (o *Options) SetDeleteObsoleteFilesPeriodMicros(uint64)      {}
func (o *Options) SetKeepLogFileNum(uint)                         {}
func (o *Options) SetBlockBasedTableFactory(*BlockBasedTableOptions) {}

type SliceTransform interface{}

func NewFixedPrefixTransform(int) SliceTransform { return nil }

type BlockBasedTableOptions struct{}

func NewDefaultBlockBasedTableOptions() *BlockBasedTableOptions { return &BlockBasedTableOptions{} }
func (b *BlockBasedTableOptions) SetBlockCache(*Cache)         {}

type Cache struct{}

func NewLRUCache(uint64) *Cache { return &Cache{} }

type ReadOptions struct{}

func NewDefaultReadOptions() *ReadOptions { return &ReadOptions{} }
func (r *ReadOptions) Destroy()           {}
func (r *ReadOptions) SetFillCache(bool)  {}

type WriteOptions struct{}

func NewDefaultWriteOptions() *WriteOptions { return &WriteOptions{} }
func (w *WriteOptions) SetSync(bool)        {}

type TransactionOptions struct{}

func NewDefaultTransactionOptions() *TransactionOptions { return &TransactionOptions{} }

type FlushOptions struct{}

func NewDefaultFlushOptions() *FlushOptions { return &FlushOptions{} }

type ColumnFamilyHandle struct{ name string }

func (h *ColumnFamilyHandle) Destroy() {}

type Slice struct{ data []byte }

func (s *Slice) Data() []byte { return s.data }
func (s *Slice) Free()        {}

// ---- simulated disk ----

var ErrCrashed = errors.New("grocksdb-stub: simulated crash, store is gone")

type disk struct {
	mu  sync.Mutex
	cfs map[string]map[string][]byte
	// fault plan
	writesLeft int64 // <0: unlimited
	crashed    bool
	nWrites    int64
	log        []WriteEvent
	trace      bool
}

type WriteEvent struct {
	Batch bool
	Ops   []Op
}
type Op struct {
	CF     string
	Key    []byte
	Value  []byte
	Delete bool
}

var (
	disksMu sync.Mutex
	disks   = map[string]*disk{}
)

func getDisk(path string) *disk {
	disksMu.Lock()
	defer disksMu.Unlock()
	d, ok := disks[path]
	if !ok {
		d = &disk{cfs: map[string]map[string][]byte{}, writesLeft: -1}
		disks[path] = d
	}
	return d
}

// StubControl is the harness-facing handle on a simulated disk.
type StubControl struct{ d *disk }

func Control(path string) *StubControl { return &StubControl{getDisk(path)} }
func DropDisk(path string) {
	disksMu.Lock()
	delete(disks, path)
	disksMu.Unlock()
}
func (c *StubControl) CrashAfterWrites(n int64) {
	c.d.mu.Lock()
	c.d.writesLeft = n
	c.d.crashed = false
	c.d.mu.Unlock()
}
func (c *StubControl) Restart() {
	c.d.mu.Lock()
	c.d.writesLeft = -1
	c.d.crashed = false
	c.d.mu.Unlock()
}
func (c *StubControl) Crashed() bool { c.d.mu.Lock(); defer c.d.mu.Unlock(); return c.d.crashed }
func (c *StubControl) Writes() int64 { c.d.mu.Lock(); defer c.d.mu.Unlock(); return c.d.nWrites }
func (c *StubControl) Trace(on bool) { c.d.mu.Lock(); c.d.trace = on; c.d.log = nil; c.d.mu.Unlock() }
func (c *StubControl) Log() []WriteEvent {
	c.d.mu.Lock()
	defer c.d.mu.Unlock()
	return append([]WriteEvent(nil), c.d.log...)
}
func (c *StubControl) Snapshot() map[string]map[string][]byte {
	c.d.mu.Lock()
	defer c.d.mu.Unlock()
	out := map[string]map[string][]byte{}
	for cf, m := range c.d.cfs {
		mm := map[string][]byte{}
		for k, v := range m {
			mm[k] = append([]byte(nil), v...)
		}
		out[cf] = mm
	}
	return out
}

func (d *disk) apply(batch bool, ops []Op) error {
	d.mu.Lock()
	defer d.mu.Unlock()
	if d.crashed {
		return ErrCrashed
	}
	if d.writesLeft == 0 {
		d.crashed = true
		return ErrCrashed
	}
	if d.writesLeft > 0 {
		d.writesLeft--
	}
	d.nWrites++
	for _, op := range ops {
		m := d.cfs[op.CF]
		if m == nil {
			m = map[string][]byte{}
			d.cfs[op.CF] = m
		}
		if op.Delete {
			delete(m, string(op.Key))
		} else {
			m[string(op.Key)] = append([]byte(nil), op.Value...)
		}
	}
	if d.trace {
		d.log = append(d.log, WriteEvent{Batch: batch, Ops: ops})
	}
	return nil
}

type DB struct {
	d    *disk
	path string
}

func OpenDbColumnFamilies(opts *Options, name string, cfNames []string, cfOpts []*Options) (*DB, []*ColumnFamilyHandle, error) {
	d := getDisk(name)
	hs := make([]*ColumnFamilyHandle, len(cfNames))
	for i, n := range cfNames {
		hs[i] = &ColumnFamilyHandle{name: n}
	}
	return &DB{d: d, path: name}, hs, nil
}

func (db *DB) get(cf string, key []byte) (*Slice, error) {
	db.d.mu.Lock()
	defer db.d.mu.Unlock()
	if db.d.crashed {
		return nil, ErrCrashed
	}
	v, ok := db.d.cfs[cf][string(key)]
	if !ok {
		return &Slice{}, nil
	}
	return &Slice{data: append([]byte(nil), v...)}, nil
}

func (db *DB) Get(ro *ReadOptions, key []byte) (*Slice, error) { return db.get("default", key) }
func (db *DB) Put(wo *WriteOptions, key, value []byte) error {
	return db.d.apply(false, []Op{{CF: "default", Key: cp(key), Value: cp(value)}})
}
func (db *DB) PutCF(wo *WriteOptions, cf *ColumnFamilyHandle, key, value []byte) error {
	return db.d.apply(false, []Op{{CF: cf.name, Key: cp(key), Value: cp(value)}})
}
func (db *DB) Delete(wo *WriteOptions, key []byte) error {
	return db.d.apply(false, []Op{{CF: "default", Key: cp(key), Delete: true}})
}
func (db *DB) Write(wo *WriteOptions, wb *WriteBatch) error {
	return db.d.apply(true, append([]Op(nil), wb.ops...))
}
func (db *DB) Flush(fo *FlushOptions) error                             { return nil }
func (db *DB) Close()                                                   {}
func (db *DB) GetPropertyCF(name string, cf *ColumnFamilyHandle) string { return "" }

func cp(b []byte) []byte { return append([]byte(nil), b...) }

type WriteBatch struct{ ops []Op }

func NewWriteBatch() *WriteBatch          { return &WriteBatch{} }
func (wb *WriteBatch) Destroy()           {}
func (wb *WriteBatch) Put(key, value []byte) {
	wb.ops = append(wb.ops, Op{CF: "default", Key: cp(key), Value: cp(value)})
}
func (wb *WriteBatch) Delete(key []byte) {
	wb.ops = append(wb.ops, Op{CF: "default", Key: cp(key), Delete: true})
}
func (wb *WriteBatch) DeleteCF(cf *ColumnFamilyHandle, key []byte) {
	wb.ops = append(wb.ops, Op{CF: cf.name, Key: cp(key), Delete: true})
}

type Iterator struct {
	keys [][]byte
	vals [][]byte
	i    int
}

func (db *DB) newIter(cf string) *Iterator {
	db.d.mu.Lock()
	defer db.d.mu.Unlock()
	m := db.d.cfs[cf]
	ks := make([]string, 0, len(m))
	for k := range m {
		ks = append(ks, k)
	}
	sort.Strings(ks)
	it := &Iterator{}
	for _, k := range ks {
		it.keys = append(it.keys, []byte(k))
		it.vals = append(it.vals, cp(m[k]))
	}
	return it
}
func (db *DB) NewIterator(ro *ReadOptions) *Iterator { return db.newIter("default") }
func (db *DB) NewIteratorCF(ro *ReadOptions, cf *ColumnFamilyHandle) *Iterator {
	return db.newIter(cf.name)
}
func (it *Iterator) SeekToFirst() { it.i = 0 }
func (it *Iterator) Valid() bool  { return it.i < len(it.keys) }
func (it *Iterator) Next()        { it.i++ }
func (it *Iterator) Key() *Slice  { return &Slice{data: it.keys[it.i]} }
func (it *Iterator) Value() *Slice { return &Slice{data: it.vals[it.i]} }
func (it *Iterator) Close()       {}

// CopyDisk duplicates the simulated disk `from` under the name `to` (fault plan and trace are not copied).
func CopyDisk(from, to string) {
	src := getDisk(from)
	src.mu.Lock()
	cfs := map[string]map[string][]byte{}
	for cf, m := range src.cfs {
		mm := make(map[string][]byte, len(m))
		for k, v := range m {
			mm[k] = append([]byte(nil), v...)
		}
		cfs[cf] = mm
	}
	src.mu.Unlock()
	disksMu.Lock()
	disks[to] = &disk{cfs: cfs, writesLeft: -1}
	disksMu.Unlock()
}
