module github.com/linxGnu/grocksdb

go 1.21
