module demo

go 1.21

require (
	github.com/0chain/common v0.0.0
	github.com/linxGnu/grocksdb v1.8.0
	go.uber.org/zap v1.21.0
)

replace github.com/0chain/common => WORKTREE

replace github.com/linxGnu/grocksdb => /tmp/grocksdb-stub

replace github.com/tinylib/msgp => github.com/0chain/msgp v1.1.62
