#!/opt/veriftools/pyvenv/bin/python
import json, jsonschema, sys, glob, os
R = os.path.dirname(os.path.dirname(os.path.abspath(__file__)))
jsonschema.validate(json.load(open(R + '/MANIFEST.json')), json.load(open('/root/.vp/MANIFEST.schema.json')))
es = json.load(open('/root/.vp/EVIDENCE.schema.json'))
for f in sorted(glob.glob(R + '/evidence/*.json')):
    jsonschema.validate(json.load(open(f)), es)
    print('ok', os.path.basename(f))
print('manifest ok')
