#!/bin/bash
# tools/reconfirm_all.sh [seed-id ...] : for every kept seeded change re-check on /repo HEAD (scratch worktree) that the patch still
# applies and that its demo still fails with it (a later fix: commit may have neutralised a change). Prints one line per id.
export GOFLAGS=-mod=mod GOPROXY=off GOSUMDB=off GOTOOLCHAIN=local
ids="$@"; [ -z "$ids" ] && ids=$(ls /verif/seeded | grep '^C[0-9][0-9]-')
V=/tmp/wt/reconfirm-$$; rm -rf $V; mkdir -p $V
git -C /repo worktree prune; git -C /repo worktree add --detach $V/repo HEAD -q || exit 2
trap 'git -C /repo worktree remove --force $V/repo 2>/dev/null; rm -rf $V' EXIT
mkdir -p $V/demo && cp /tmp/demo-template/go.sum $V/demo/ && sed "s#WORKTREE#$V/repo#" /tmp/demo-template/go.mod > $V/demo/go.mod
for sid in $ids; do
  D=/verif/seeded/$sid
  grep -q '"status": "neutralised' $D/meta.json 2>/dev/null && { echo "$sid neutralised (recorded)"; continue; }
  (cd $V/repo && git checkout -q -- . && git clean -fdq)
  rm -f $V/demo/*_test.go; cp /tmp/demo-template/demo_test.go $V/demo/; cp $D/demo_test.go $V/demo/demo_x_test.go
  flags=$(python3 -c "import json,re,sys; m=json.load(open('$D/meta.json')); c=m.get('confirmed',{}).get('demo_cmd',''); print(re.sub(r'^go test -count=1 *','',c.split(' (demo module')[0]))")
  (cd $V/repo && git apply $D/patch.diff 2>/dev/null) || { echo "$sid NOAPPLY"; continue; }
  if (cd $V/demo && timeout 900 go test -count=1 $flags ./... >/dev/null 2>&1); then echo "$sid DEMO-PASSES-WITH-CHANGE"; else echo "$sid ok"; fi
done
